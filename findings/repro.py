#!/venv/bin/python
"""Stand-alone reproducers (no harness, real CBC) for the genuine defects the
checks found on the pinned tree.  Usage: repro.py [n ...]   (default: all).
Each prints what the unrepaired code did; after the `fix:` commits every case
prints OK."""
import os, sys, tempfile, io, contextlib
sys.path.insert(0, os.environ.get('VERIF_REPO', '/repo'))
from matchingproblems.solver.solver import Solver
from matchingproblems.generator.generator import Generator

D = tempfile.mkdtemp(prefix='mprepro-')
os.environ['TMPDIR'] = D
tempfile.tempdir = D

def solve(text, args):
    p = os.path.join(D, 'i.txt'); open(p, 'w').write(text)
    s = Solver(['-f', p] + args.split()); s.solve(); return s

def status(text, args):
    try:
        s = solve(text, args); r = s.get_results()
        return [l for l in r.split('\n') if l.startswith(('pulp_status', 'matching', 'optimal_', 'Infeasible', 'stability'))]
    except BaseException as e:
        return '%s: %s' % (type(e).__name__, e)

TWO = '2 1 1\n1: 1\n2: 1\n1: 2: 2: 1\n1: 0: 2: 2: 1 2\n'     # both students forced onto project 1; lecturer ranks 1 2
CASES = {
 1: ('C02 -mincost 1 -minsqcost 2: duplicate variable name', lambda: status(TWO, '-na 3 -twopl -mincost 1 -minsqcost 2'), 'Optimal'),
 2: ('C02/C03 -mincost 1 0 1: objective bound below attainable lecturer cost', lambda: status(TWO, '-na 3 -twopl -mincost 1 0 1'), 'Optimal'),
 3: ('C02/C03 -minsqcost 1 0 1: objective bound too small', lambda: status(TWO, '-na 3 -twopl -minsqcost 1 0 1'), 'Optimal'),
 4: ('C02/C03 -lsb 1: bound max uq * ns < sum of deviations', lambda: status('1 2 2\n1: 1\n1: 0: 1: 1\n2: 0: 1: 2\n1: 0: 2: 2\n2: 0: 2: 2\n', '-na 3 -lsb 1'), 'Optimal'),
 5: ('C02/C03 -mincostlsb 1: bound too small', lambda: status('1 1 1\n1: 1\n1: 0: 1: 1\n1: 0: 3: 3\n', '-na 3 -mincostlsb 1'), 'Optimal'),
 6: ('C02 -gen 1 with all lists empty: no solve at all', lambda: status('1 1 1\n1: \n1: 0: 1: 1\n1: 0: 1: 1\n', '-na 3 -gen 1'), 'Optimal'),
 7: ('C06 check_stability with a zero-capacity project', lambda: status('1 1 1\n1: 1\n1: 0: 0: 1\n1: 0: 1: 1: 1\n', '-na 3 -twopl -stab'), 'stability_correct: True'),
 8: ('C07 -bf with max rank > number of students', lambda: status('1 2 1\n1: 1 2\n1: 0: 1: 1\n2: 0: 1: 1\n1: 0: 1: 1\n', '-na 3 -bf'), 'optimal_greedyprofile: < 1 0 >'),
}

def gen(args):
    out = os.path.join(D, 'g'); 
    with contextlib.redirect_stderr(io.StringIO()):
        try:
            Generator(('-numinst 1 -o %s ' % out + args).split())
        except BaseException as e:
            return '%s: %s' % (type(e).__name__, e)
    return open(os.path.join(out, '0.txt')).read().split('\n\n')[0]
CASES[9] = ('C08 -mp ha: house lines carry a stale preference list', lambda: gen('-mp ha -n1 2 -n2 2 -pmin 1 -pmax 2 -uq 2'), None)
CASES[10] = ('C15 -mp sm: documented arguments rejected with TypeError', lambda: gen('-mp sm -n1 2 -pmin 1 -pmax 2 -twopl'), None)

if __name__ == '__main__':
    which = [int(a) for a in sys.argv[1:]] or sorted(CASES)
    for n in which:
        name, fn, want = CASES[n]
        got = fn()
        ok = (want is None and 'Error' not in str(got)) or (want is not None and want in str(got))
        if n == 9 and ok:
            ok = all(len(l.split(':')) == 3 or l.split(':')[-1].strip() == '' for l in got.split('\n')[3:5])
        print('#%d %s\n    -> %s   [%s]' % (n, name, got, 'OK' if ok else 'DEFECT'))
    import shutil; shutil.rmtree(D, ignore_errors=True)
