from . import lpprops


def main(tier, seed):
    return lpprops.main('C01', tier, seed)
