from . import lpprops


def main(tier, seed):
    return lpprops.main('C02', tier, seed)
