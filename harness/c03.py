from . import lpprops


def main(tier, seed):
    return lpprops.main('C03', tier, seed)
