from . import lpprops


def main(tier, seed):
    return lpprops.main('C04', tier, seed)
