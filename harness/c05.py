from . import lpprops


def main(tier, seed):
    return lpprops.main('C05', tier, seed)
