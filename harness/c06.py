"""C06 - the stability checker answers True exactly for matchings without a
blocking pair, and never fails.

M1: CheckerEqDef (MPSolver.tla): the checker's loop (counts, worst ranks with an
    explicit "nobody assigned" value, conditions 2/3a/3b/3c) equals the SPA-STL
    definition on every upper-quota-respecting assignment of every family instance.
M2: for each exported two-sided instance the file is loaded through Solver and
    Model.check_stability is called on EVERY such assignment (not only valid or
    stable ones); plus the stability_correct line of every -stab run.
"""
import os

from . import families as fm, impl, lpcheck, solverplay


def replay_checker(tag, rec):
    impl.ensure_repo()
    cl = solverplay.Clauses(rec)
    o = rec['o']
    path = impl.write_text(o['text'])
    info = {'hash': rec.get('_h'), 'n': len(rec['cases']), 'mixed': len({c['stable'] for c in rec['cases']}) == 2,
            'sample': {'file': bytes(o['text']).decode('latin-1'),
                       'assignments': [(c['m'], c['stable']) for c in rec['cases'][:6]]}}
    try:
        st, S = impl.construct_solver(solverplay.argv_of(dict(o, stab=False, flags=[]), path))
        if not cl.add('C06', 'loads', st == 'ok', '%s %s' % (st, S)):
            return cl.out, info
        model = S.model
        for c in rec['cases']:
            m = c['m']
            pa = []
            for i, pj in enumerate(m):
                if pj == 0:
                    pa.append(None)
                else:
                    pa.append([p for p in model.pairs[i] if p.projectID == pj][0])
            try:
                v = model.check_stability(pa)
            except BaseException as e:  # noqa
                cl.add('C06', 'checker_returns_bool', False, 'check_stability(%s) raised %s: %s' % (m, type(e).__name__, e))
                continue
            cl.add('C06', 'checker_returns_bool', isinstance(v, bool), 'check_stability(%s) returned %r' % (m, v))
            cl.add('C06', 'checker_equals_def', bool(v) == c['stable'],
                   'check_stability(%s) = %r, SPA-STL definition says stable = %s' % (m, v, c['stable']))
        return cl.out, info
    finally:
        os.unlink(path)


def main(tier, seed):
    q = tier == 'quick'
    R = fm.run_spec
    chk = dict(ExportMode='checker', CritLists=[()], PCs={False}, Stabs={False}, Sided={'two'})
    inv = ['FamilyWellFormed', 'CheckerEqDef', 'Export']
    runs = [
        R('s2core two-sided, all orders', fm.s2core(OrderMode='all', PQ={(0, 1), (0, 2), (1, 2)}, LQ={(0, 1, 1), (0, 1, 2), (0, 2, 2)}, **chk),
          invariants=inv, simulate=6000 if q else None),
        R('zerocap', fm.zerocap(**chk), invariants=inv),
        R('hr2', fm.hr2(**chk), invariants=inv),
        R('shared3', fm.shared3(OrderMode='all', **chk), invariants=inv, simulate=3000 if q else None),
        R('wide', fm.wide(**chk), invariants=inv, simulate=2500 if q else 40000),
        R('wide-hr', fm.wide(na=2, **chk), invariants=inv, simulate=1500 if q else 20000),
        R('four students, short lists', fm.four_short(**chk), invariants=inv, simulate=2000 if q else 30000),
        R('large ids: shared lecturer', fm.shifted(NL=1, **chk), invariants=inv, simulate=240 if q else 3000),
        R('large ids: two lecturers', fm.shifted(**chk), invariants=inv, simulate=160 if q else 2000),
    ]
    for r in runs:
        r['worker'] = replay_checker
    rep = lpcheck.run_lp_check('C06', tier, seed, runs, finish=False, nontrivial=lambda i: i.get('mixed', False))
    # the stability_correct line of -stab runs
    stab = dict(Sided={'two'}, Stabs={True}, CritLists=[(), (fm.C('maxsize'),)], ReportCap=8)
    runs2 = [R('zerocap -stab', fm.zerocap(**stab)),
             R('wide -stab', fm.wide(**stab), simulate=1500 if q else 20000)]
    return lpcheck.run_lp_check('C06', tier, seed, runs2, report=rep,
                                rule='two-sided instances constructed by TLC; every assignment respecting upper quotas is put to '
                                     'Model.check_stability; non-trivial = instance has both stable and unstable assignments',
                                nontrivial=lambda i: False)
