"""C07 - brute-force mode reports the exact optimum of every statistic it prints.

M1: BFEqDef (MPSolver.tla): the fold of the implementation, in its product
    order and with its accumulator initial values, equals the declarative
    optimum of each printed statistic on every family instance.
M2: Solver([... '-bf']).solve(); get_results() parsed line by line against the
    specification's optimum.
"""
import os

from . import families as fm, impl, lpcheck, restext, solverplay

LINES = [('optimal_size', 'size'), ('optimal_maxsizemincost', 'cost'), ('optimal_maxsizemindegree', 'deg'),
         ('optimal_maxsizeminsqcost', 'sq'), ('optimal_generousmaxprofile', 'gen'),
         ('optimal_greedymaxprofile', 'gremax'), ('optimal_greedyprofile', 'gre'),
         ('optimal_max_lec_abs_diff', 'mx'), ('optimal_sum_lec_abs_diff', 'sm')]


def replay_bf(tag, rec):
    impl.ensure_repo()
    cl = solverplay.Clauses(rec)
    o, exp = rec['o'], rec['res']
    path = impl.write_text(o['text'])
    info = {'hash': rec.get('_h'), 'feasible': exp['feasible'],
            'sample': {'argv': solverplay.argv_of(o, '<file>')[2:], 'file': bytes(o['text']).decode('latin-1'), 'spec': exp}}
    try:
        st, S = impl.construct_solver(solverplay.argv_of(o, path))
        if not cl.add('C07', 'construct_no_exception', st == 'ok', '%s %s' % (st, S)):
            return cl.out, info
        try:
            with impl.quiet():
                S.solve()
            text = S.get_results()
        except BaseException as e:  # noqa
            cl.add('C07', 'bf_no_exception', False, '%s: %s' % (type(e).__name__, e))
            return cl.out, info
        cl.add('C07', 'bf_no_exception', True)
        p = restext.parse_results(text)
        cl.add('C07', 'bf_infeasible_iff', bool(p.get('bf_infeasible')) == (not exp['feasible']),
               'printed Infeasible=%s, spec feasible=%s' % (p.get('bf_infeasible'), exp['feasible']))
        if exp['feasible'] and not p.get('bf_infeasible'):
            for line, field in LINES:
                cl.add('C07', 'bf_' + field, p.get(line) == exp[field], '%s printed %s, spec optimum %s' % (line, p.get(line), exp[field]))
            mr = max([max(r) if r else 0 for r in rec['inst']['ranks']] or [0])
            for line in ('optimal_generousmaxprofile', 'optimal_greedymaxprofile', 'optimal_greedyprofile'):
                cl.add('C07', 'bf_profile_lengths', p.get(line) is not None and len(p.get(line)) == mr,
                       '%s has %s entries, max rank %d' % (line, p.get(line), mr))
        elif not exp['feasible']:
            cl.add('C07', 'bf_no_statistics_when_infeasible', not any(l in p for l, _ in LINES), 'keys %s' % p['keys'])
        return cl.out, info
    finally:
        os.unlink(path)


def main(tier, seed):
    q = tier == 'quick'
    R = fm.run_spec
    bf = dict(BFs={True}, Stabs={False}, CritLists=[()])
    inv = ['FamilyWellFormed', 'BFEqDef', 'Export']
    runs = [
        R('s2core', fm.s2core(**bf), invariants=inv, simulate=8000 if q else None),
        R('1 student, 3 projects (max rank > students)', fm.fam(NS=1, NP=3, NL=2, MaxLen=3, PQ={(0, 1), (1, 1)}, LQ={(0, 1, 1), (0, 1, 2)}, **bf), invariants=inv),
        R('zerocap', fm.zerocap(**bf), invariants=inv),
        R('hr2', fm.hr2(**bf), invariants=inv, simulate=5000 if q else None),
        R('shared3', fm.shared3(**bf), invariants=inv, simulate=3000 if q else 50000),
        R('wide', fm.wide(**bf), invariants=inv, simulate=2500 if q else 40000),
        R('wide-hr', fm.wide(na=2, **bf), invariants=inv, simulate=1500 if q else 20000),
        R('2 students, ranks up to 5', fm.five_long(**bf), invariants=inv, simulate=3000 if q else 40000),
        R('3 students x 4 projects, rank 4', fm.three_by_four(**bf), invariants=inv, simulate=2000 if q else 30000),
        R('5 students', fm.five_students(**bf), invariants=inv, simulate=600 if q else 8000),
    ]
    for r in runs:
        r['worker'] = replay_bf
    def post(rep, pool):
        from . import m3real
        m3real.run_archive(rep, 'C07', True)
    return lpcheck.run_lp_check('C07', tier, seed, runs, post=post,
                                rule='instances constructed by TLC, with and without -pc, one- and two-sided; all nine printed lines; '
                                     'non-trivial = at least one valid matching',
                                nontrivial=lambda i: i['feasible'])
