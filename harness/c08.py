"""C08 - generated files are well-formed instances of the requested type and parameters."""
from . import common, engine, genprops


def run(pid, tier, seed, own):
    q = tier == 'quick'
    two = 'C08' not in own          # C12 is about two-sided runs only
    rep = common.Report(pid, tier, seed)
    pool = engine.Pool()
    try:
        genprops.m1_generate(rep, tier)
        if 'C08' in own:
            genprops.spread_stage(rep, pool, tier)
        traces = genprops.collect(rep, pool, tier, seed, perturb=False, nseeds=1 if q else 6, maxn=2, rich=True,
                                  label='counts <= 2, rich optional domains', only_twosided=two, every=2 if q else 1)
        traces += genprops.collect(rep, pool, tier, seed + 1, perturb=False, nseeds=1 if q else 4, maxn=3, rich=False,
                                   label='counts <= 3', only_twosided=two, every=2 if q else 1)
        # quotas / targets / projects per lecturer with every kind of remainder (n2 mod n3 in 0..n3-1)
        traces += genprops.collect(rep, pool, tier, seed + 3, perturb=False, nseeds=1, maxn=2, rich=False, types={'spa'},
                                   counts={'n1': {2}, 'n2': {5, 6, 7}, 'n3': {4, 5}}, label='spread stress: n2 in 5..7, n3 in 4..5', only_twosided=two)
        # larger counts, longer lists, three instances per run
        traces += genprops.collect(rep, pool, tier, seed + 5, perturb=False, nseeds=1, maxn=4, rich=False, numinsts={3},
                                   counts={'n1': {5}, 'n2': {8, 10}, 'n3': {6}}, label='larger counts: n1 5, n2 8/10, n3 6, lists up to 4, 3 instances',
                                   only_twosided=two)
        # lecturers with many projects and long first-side lists (a student ranking 4-6 projects of one lecturer)
        traces += genprops.collect(rep, pool, tier, seed + 6, perturb=False, nseeds=2, maxn=6, rich=False, types={'spa'},
                                   counts={'n1': {3}, 'n2': {4, 6}, 'n3': {1, 2}}, label='lecturers with 3-6 projects, lists up to 6',
                                   only_twosided=two, every=2 if q else 1)
        # long lists (text beyond 75-80 characters, entries with one and two digits): second-side lists ranking 30 first-side
        # agents, first-side lists of up to 30 entries
        traces += genprops.collect(rep, pool, tier, seed + 7, perturb=False, nseeds=1, maxn=2, rich=False, numinsts={1},
                                   counts={'n1': {30}, 'n2': {2}, 'n3': {1}}, label='long second-side lists: 30 first-side agents, 2 second-side',
                                   only_twosided=two, every=3 if q else 1)
        traces += genprops.collect(rep, pool, tier, seed + 8, perturb=False, nseeds=1, maxn=30, minlen=28, rich=False, numinsts={1},
                                   counts={'n1': {2}, 'n2': {30}, 'n3': {2}}, label='long first-side lists: 28-30 of 30',
                                   only_twosided=two, every=2 if q else 1)
        if 'C08' in own:
            # many instances in one run: file names 0.txt .. 11.txt
            traces += genprops.collect(rep, pool, tier, seed + 4, perturb=False, nseeds=1, maxn=1, rich=False, numinsts={12},
                                       counts={'n1': {1, 2}, 'n2': {1}, 'n3': {1}}, label='twelve instances per run')
        if not q:
            traces += genprops.collect(rep, pool, tier, seed + 2, perturb=False, nseeds=1, maxn=4, rich=False, label='counts <= 4', only_twosided=two)
        # the possibility statement "every list length in [pmin, pmax] can occur": extra seeds for some vectors
        cand = {}
        for t in traces:
            v = t['args']['v']
            if v['pmax'] > v['pmin'] and t['key'] not in cand and len(cand) < (6 if q else 40):
                cand[t['key']] = t['args']
        extra = []
        for key, a in cand.items():
            rec = {'mp': a['mp'], 'numinst': a['numinst'], 'given': a['given'], 'v': a['v'], 'accept': True, 'pert': ['none', ''],
                   '_seeds': [seed * 7919 + i for i in range(-(-220 // (a['numinst'] * a['v']['n1'])))]}
            extra.append(('EXPORT', rec))
        for kind, val in pool.map(genprops.replay_args, extra, chunk=1):
            if kind == 'mach':
                common.machinery_exit(pid, val)
            results, info = val
            for tr in info['traces']:
                tr['key'] = 'LEN ' + tr['key']
            traces.extend(info['traces'])
        lens = genprops.validate(rep, traces, own=own)
        if 'C08' in own:
            for key, d in lens.items():
                if not key.startswith('LEN ') or d['lists'] < 200:
                    continue
                v = d['args']['v']
                want = set(range(v['pmin'], v['pmax'] + 1))
                rep.clause('every_length_can_occur', want <= d['lens'], key=key,
                           what='over %d generated lists only lengths %s occurred, requested [%d, %d]' % (d['lists'], sorted(d['lens']), v['pmin'], v['pmax']),
                           case={'args': d['args'], 'lengths_seen': sorted(d['lens']), 'lists': d['lists']})
    finally:
        pool.close()
    rep.assumptions = ['"every length can occur" is decided statistically: >= 200 drawn lists per argument vector, false-alarm probability < 1e-20 for <= 4 lengths',
                       'process-global RNGs are seeded by the harness']
    return rep.finish(exhaustive=False, rule='legal argument vectors enumerated by TLC (MC_Gen.tla) x seeds; each generated file is a trace validated by '
                                             'Trace_Gen.tla; non-trivial = all accepted vectors')


def main(tier, seed):
    return run('C08', tier, seed, {'C08'})
