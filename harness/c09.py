"""C09 - every generated instance is solvable by the solver under the documented flags.

M1  GenRoundTrip (MPGen.tla, all draws for tiny counts): what the generator
    machine writes is read back by the specification's reader as the same
    instance; the MPSolver invariants hold on whatever is read.
M3  real Generator (seeded) -> files -> real Solver with -na 2/3 and -twopl iff
    generated two-sided, LP mode with the REAL CBC (no criterion, -maxsize 1,
    -pc, -stab -maxsize 1 on two-sided files, -maxsize 1 -mincost 2) and -bf
    (with and without -pc).  Every run is a trace validated by Trace_Pipe.tla:
    the instance is read from the bytes by the specification, the MPSolver
    actions are taken on it, and loading, status, validity, stability,
    optimum values, printed statistics and all brute-force lines are judged.
"""
import hashlib

from . import common, engine, families as fm, gendrive, genprops, pipedrive, tlc

CLAUSES = ['loads_without_error', 'loaded_equals_file', 'file_is_well_formed_instance', 'no_exception', 'status_iff_feasible',
           'matching_valid', 'matching_stable', 'matching_lexoptimal', 'optimum_values', 'stability_correct_true',
           'printed_statistics', 'no_matching_when_infeasible', 'bf_equals_optimum']


def optsets(two):
    C = fm.C
    s = [dict(), dict(crits=[C('maxsize')]), dict(pc=True, crits=[C('maxsize')]), dict(crits=[C('maxsize'), C('mincost')]),
         dict(bf=True), dict(bf=True, pc=True)]
    if two:
        s += [dict(stab=True, crits=[C('maxsize')]), dict(stab=True, crits=[C('minsize')])]
    return s


def pipe_worker(tag, rec):
    traces = []
    key = genprops.key_of(rec)
    for sd in rec['_seeds']:
        r = gendrive.run_generator(rec, sd)
        if r['outcome'] != 'ok':
            traces.append({'meta': {'key': key, 'seed': sd, 'gen_outcome': r['outcome']}, 'failed_generation': True})
            continue
        two = 'twopl' in rec['given']
        na = 3 if rec['mp'] == 'spa' else 2
        for fi, text in enumerate(r['files']):
            if rec.get('_loadonly'):
                # files whose admissible matchings TLC cannot enumerate: loading only (the solver's reading agrees with the file)
                t = pipedrive.record_run(text, na, two, loadonly=True)
                t['meta'] = {'key': key, 'seed': sd, 'file': fi, 'mp': rec['mp'], 'opts': {'load only': True}}
                traces.append(t)
                continue
            for j, osx in enumerate(optsets(two)):
                if rec.get('_nobf') and osx.get('bf'):
                    continue          # (projects+1)^students assignments: brute force only on small instances
                h = int(hashlib.sha1(('%s %s %s %s' % (key, sd, fi, j)).encode()).hexdigest()[:4], 16)
                t = pipedrive.record_run(text, na, two, enumerate_cbc=(h % 5 == 0), **osx)
                t['meta'] = {'key': key, 'seed': sd, 'file': fi, 'mp': rec['mp'], 'opts': {k: (v if k != 'crits' else [c['c'] for c in v]) for k, v in osx.items()}}
                traces.append(t)
    return [], {'hash': key, 'traces': traces}


def main(tier, seed):
    q = tier == 'quick'
    rep = common.Report('C09', tier, seed)
    pool = engine.Pool()
    traces = []
    try:
        genprops.m1_generate(rep, tier)
        seen = set()

        def on_result(info):
            traces.extend(info['traces'])

        def mk_flt(nseeds, every, nobf=False, loadonly=False):
            def flt(tag, rec):
                rec['_nobf'] = nobf
                rec['_loadonly'] = loadonly
                k = genprops.key_of(rec)
                if k in seen or not rec['accept']:
                    return False
                seen.add(k)
                h = int(hashlib.sha1(k.encode()).hexdigest()[:6], 16)
                if h % every:
                    return False
                rec['_seeds'] = [seed * 1000 + h % 997 + i for i in range(nseeds)]
                return True
            return flt
        plans = [('counts <= 2', 2, True, 1, 12 if q else 1, None), ('counts <= 3', 3, False, 1, 30 if q else 3, None),
                 ('larger counts (n1 5, n2 8, n3 6, lists up to 4), LP only', 4, False, 1, 45 if q else 4, {'n1': {5}, 'n2': {8}, 'n3': {6}})]
        # ten first-side agents (two-digit numbers), one-entry lists so that the admissible matchings stay enumerable
        plans.append(('ten first-side agents, one-entry lists, LP only', 1, False, 1, 6 if q else 1, {'n1': {10}, 'n2': {3}, 'n3': {2}}))
        if not q:
            plans.append(('counts <= 4', 4, False, 1, 12, None))
        # long lists (30 rankers on a second-side list; first-side lists of 28-30 entries): loading only
        plans.append(('LOAD ONLY long second-side lists (30 first-side agents)', 2, False, 1, 3 if q else 1, {'n1': {30}, 'n2': {2}, 'n3': {1}}))
        plans.append(('LOAD ONLY long first-side lists (28-30 of 30)', 30, False, 1, 6 if q else 1, {'n1': {2}, 'n2': {30}, 'n3': {2}}))
        for label, maxn, rich, nseeds, every, counts in plans:
            res = engine.tlc_replay(rep, pool, 'MC_Gen', pipe_worker,
                                    consts=dict(MaxN=maxn, MinLen=28 if maxn == 30 else 1, NumInsts={1, 2}, Perturb=False, Generate=False,
                                                TypesUsed={'ha', 'sm', 'hr', 'spa'}, Rich=rich, Spells={'short'}, **genprops.count_sets(maxn, counts)),
                                    spec='MSpec', invariants=['ParserOK', 'FamilySound', 'ExportArgs'], label=label,
                                    on_result=on_result, export_filter=mk_flt(nseeds, every, nobf=counts is not None, loadonly=label.startswith('LOAD ONLY')), timeout=3000)
            rep.notes.append('%s: %d legal argument vectors, every %d-th driven through generator and solver' % (label, res['exports'], every))
    finally:
        pool.close()
    rep.traces = 0
    good = [t for t in traces if not t.get('failed_generation')]
    for t in traces:
        if t.get('failed_generation'):
            rep.clause('generation_succeeds', False, key=t['meta']['key'], what='generator failed: %s' % t['meta']['gen_outcome'], case=t['meta'])
    agree = [a for t in good for a in t.get('agree', [])]
    rep.cov['enumerator_vs_cbc'] = {'solves_cross_checked': len(agree),
                                    'status_disagreements': sum(1 for a in agree if a[0] is False),
                                    'optimum_disagreements': sum(1 for a in agree if a[1] is False)}
    if any(a[0] is False or a[1] is False for a in agree):
        common.machinery_exit('C09', 'exact enumerator and CBC disagree: %s' % rep.cov['enumerator_vs_cbc'])
    B = 3000
    for i in range(0, len(good), B):
        chunk = good[i:i + B]
        verdicts, res = pipedrive.validate(chunk, 'C09')
        rep.add_tlc(tlc.stats_of(res))
        for t, v in zip(chunk, verdicts):
            rep.traces += 1
            rep.evaluations += 1
            fails = set(v['fails'])
            if v['nF0'] >= 2 or t['bf']:
                rep.distinct.add(len(rep.distinct))
            for nme in CLAUSES:
                ok = nme not in fails
                rep.clause(nme, ok, key='%s seed=%s file=%s opts=%s | %s' % (t['meta']['key'], t['meta']['seed'], t['meta']['file'], t['meta']['opts'], nme),
                           what='%s: generated file %r, options %s, observed status=%r matching=%s exception=%r construct=%r'
                                % (nme, bytes(t['text']).decode('latin-1'), t['meta']['opts'], t['status'], t['matching'], t['exception'], t['construct']),
                           case=None if ok else {k: (bytes(v2).decode('latin-1') if k == 'text' else v2) for k, v2 in t.items()})
            if len(rep.samples) < 4:
                rep.sample({'generator_args': t['meta']['key'], 'seed': t['meta']['seed'], 'solver_options': t['meta']['opts'],
                            'file': bytes(t['text']).decode('latin-1')[:200], 'observed_status': t['status'], 'observed_matching': t['matching']})
    rep.assumptions = ['real CBC is used for every LP run of this check', 'generated counts <= 4 so that brute force and TLC-side enumeration are feasible']
    return rep.finish(exhaustive=False, rule='legal generator argument vectors enumerated by TLC, a fixed fraction driven through the real generator and the '
                                             'real solver (6-8 option sets per file, real CBC and -bf); non-trivial = the specification leaves at least 2 optimal matchings to choose from, or -bf')
