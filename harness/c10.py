from . import lpprops


def main(tier, seed):
    return lpprops.main('C10', tier, seed)
