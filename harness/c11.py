from . import lpprops


def main(tier, seed):
    return lpprops.main('C11', tier, seed)
