"""C12 - second-side lists rank exactly the agents that find them acceptable."""
from . import c08


def main(tier, seed):
    return c08.run('C12', tier, seed, {'C12'})
