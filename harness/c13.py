"""C13 - ties written by the generator are read back as the same ties.

M1: MC_Ties.tla, exhaustive over list lengths 0..N and all 2^n indicator
    vectors, writer and reader automata stepped one entry / token at a time.
M2: every exported behaviour is replayed: the real writer must emit the
    specification's tokens, the real reader must produce the specification's
    ranks, and the list embedded in 2- and 3-agent files (first side and second
    side) must be read by Solver with those ranks.
"""
from . import common, engine, impl, tlc

INVS = ['WriterDepth', 'ParensOK', 'OrderPreserved', 'SameRankIffTied', 'DenseRanks',
        'TextTiesAreTies', 'LastIrrelevant', 'FunctionalForm', 'RanksTiesInverse',
        'FileRoundTrip', 'Export']


def replay(tag, rec):
    impl.ensure_repo()
    from matchingproblems.generator import generator_shared as gs
    from matchingproblems.solver import fileIO
    out = []
    lst, ties, rks = rec['list'], rec['ties'], rec['rks']
    toks = impl.toks_to_strs(rec['toks'])
    key = 'list=%s ties=%s' % (lst, ties)
    case = {'list': lst, 'ties': ties, 'spec_tokens': toks, 'spec_ranks': rks}

    def cl(name, ok, what=''):
        out.append((name, bool(ok), key + ' ' + name, what, None if ok else dict(case, observed=what), True))

    # writer
    try:
        real = list(gs.create_string_pref(list(lst), list(ties)))
        cl('writer_tokens_equal_spec', real == toks, 'real writer %r, spec %r' % (real, toks))
        # last indicator has no effect (checked on the real writer too)
        if lst:
            t2 = list(ties)
            t2[-1] = 1 - t2[-1]
            cl('writer_last_indicator_irrelevant', list(gs.create_string_pref(list(lst), t2)) == real,
               'flipping the last indicator changed the text')
    except Exception as e:  # noqa
        cl('writer_tokens_equal_spec', False, 'exception %s: %s' % (type(e).__name__, e))
    # the presentation the generator itself uses: numpy arrays (np.random.choice indicators, numpy entries)
    try:
        import numpy as np
        realnp = [str(x) for x in gs.create_string_pref(np.array(lst, dtype=np.int64), np.array(ties, dtype=np.int64))]
        cl('writer_tokens_equal_spec_numpy_arguments', realnp == toks, 'real writer on numpy arrays %r, spec %r' % (realnp, toks))
    except Exception as e:  # noqa
        cl('writer_tokens_equal_spec_numpy_arguments', False, 'numpy arguments: exception %s: %s' % (type(e).__name__, e))
    # the decisions as BOOLEANS (the writer's docstring: "ties_indicators: Whether elements of this preference list are tied";
    # a 'tied with the next entry' decision is a truth value): list of bool and numpy bool array
    try:
        import numpy as np
        realb = [str(x) for x in gs.create_string_pref(list(lst), [bool(t) for t in ties])]
        cl('writer_tokens_equal_spec_boolean_decisions', realb == toks, 'real writer on a list of bool %r, spec %r' % (realb, toks))
        realnb = [str(x) for x in gs.create_string_pref(np.array(lst, dtype=np.int64), np.array(ties, dtype=bool))]
        cl('writer_tokens_equal_spec_boolean_decisions', realnb == toks, 'real writer on a numpy bool array %r, spec %r' % (realnb, toks))
    except Exception as e:  # noqa
        cl('writer_tokens_equal_spec_boolean_decisions', False, 'boolean decisions: exception %s: %s' % (type(e).__name__, e))
    # the decisions as the generator itself takes and hands them over: create_ties_indicators is run with the decision
    # vector injected at the RNG boundary (numpy.random.choice returns the chosen elements of the code's OWN choice array,
    # so dtype and container are whatever the code uses); all-tied / none-tied vectors go through tie probability 1 / 0
    # without any injection.  Whatever it returns is passed to the writer unchanged.
    if lst:
        try:
            import numpy as np
            orig = np.random.choice
            used = []

            def fake(a, size=None, replace=True, p=None):
                arr = np.asarray(a)
                if arr.ndim == 1 and len(arr) == 2 and size == len(ties):
                    used.append(1)
                    return arr[np.array(ties, dtype=int)]
                return orig(a, size=size, replace=replace, p=p)
            if all(t == 1 for t in ties) or not any(ties):
                ind = gs.create_ties_indicators([np.array(lst, dtype=np.int64)], 1.0 if ties[0] else 0.0)[0]
            else:
                np.random.choice = fake
                try:
                    ind = gs.create_ties_indicators([np.array(lst, dtype=np.int64)], 0.5)[0]
                finally:
                    np.random.choice = orig
            if len(ind) == len(ties) and [bool(x) for x in ind] == [bool(t) for t in ties]:
                realp = [str(x) for x in gs.create_string_pref(np.array(lst, dtype=np.int64), ind)]
                cl('writer_tokens_equal_spec_generator_pipeline', realp == toks,
                   'create_ties_indicators -> create_string_pref: %r (indicators %r), spec %r' % (realp, ind, toks))
            # (otherwise the decisions were not taken where they were injected: no verdict for this presentation)
        except Exception as e:  # noqa
            cl('writer_tokens_equal_spec_generator_pipeline', False, 'generator pipeline: exception %s: %s' % (type(e).__name__, e))
    # reader on the specification's text
    rd = getattr(fileIO, '_get_simple_pref_list_and_ranks', None)
    if rd is not None:
        try:
            ents, rr = rd(list(toks))
            cl('reader_entries_equal_spec', list(ents) == lst, 'reader entries %r' % (ents,))
            cl('reader_ranks_equal_spec', list(rr) == rks, 'reader ranks %r, spec %r' % (rr, rks))
        except Exception as e:  # noqa
            cl('reader_ranks_equal_spec', False, 'exception %s: %s' % (type(e).__name__, e))
    # embedded in files, read through the public Solver
    for f in rec['files']:
        nm = 'file_na%d_side%d_ranks' % (f['na'], f['side'])
        path = impl.write_text(f['text'])
        argv = ['-f', path, '-na', str(f['na'])] + (['-twopl'] if f['side'] == 2 else [])
        st, s = impl.construct_solver(argv)
        if st != 'ok':
            cl(nm, False, 'Solver(%s) -> %s %s' % (argv[2:], st, s))
            continue
        try:
            if f['side'] == 1:
                row = s.model.pairs[0]
                got = [(int(p.projectID), int(p.rank_student)) for p in row]
                cl(nm, got == list(zip(lst, rks)), 'pairs %r' % (got,))
            else:
                got = []
                for i, stu in enumerate(lst):
                    row = s.model.pairs[stu - 1]
                    got.append(int(row[0].rank_lecturer) if len(row) == 1 else None)
                cl(nm, got == rks, 'lecturer ranks %r, spec %r' % (got, rks))
            dbg = s.get_debug() if False else None   # get_debug needs a solve; not part of C13
        except Exception as e:  # noqa
            cl(nm, False, 'exception %s: %s' % (type(e).__name__, e))
        finally:
            try:
                import os
                os.unlink(path)
            except OSError:
                pass
    return out, {'n': len(lst), 'nontrivial': bool(lst) and any(ties[:-1])}


def main(tier, seed):
    rep = common.Report('C13', tier, seed)
    n = 10 if tier == 'quick' else 12
    pool = engine.Pool()
    seen = {'nt': 0}

    def on_result(info):
        if info['nontrivial']:
            seen['nt'] += 1
    try:
        res = engine.tlc_replay(rep, pool, 'MC_Ties', replay,
                                consts={'N': n, 'Variants': {'rev', 'two'}, 'WithFiles': True, 'LongNs': set()},
                                invariants=INVS, properties=['WriterBridge', 'ReaderBridge'], on_result=on_result, timeout=3000)
    finally:
        pool.close()
    expected = 2 * (2 ** (n + 1) - 1) - 1   # both variants share the empty list
    if res['exports'] < expected:
        common.machinery_exit('C13', 'TLC exported %d behaviours, expected %d' % (res['exports'], expected))
    # three-digit entries (98, 99, 100, ...): shorter lists, files with 100+ agents
    pool = engine.Pool()
    n3 = 6 if tier == 'quick' else 8
    try:
        res3 = engine.tlc_replay(rep, pool, 'MC_Ties', replay, consts={'N': n3, 'Variants': {'big'}, 'WithFiles': True, 'LongNs': set()},
                                 invariants=INVS, on_result=on_result, timeout=3000, label='MC_Ties three-digit entries')
    finally:
        pool.close()
    rep.notes.append('three-digit entries: lists up to length %d, %d behaviours' % (n3, res3['exports']))
    # long lists (25 and 60 entries), decision vectors sampled by tlc -simulate, replayed like the short ones
    pool = engine.Pool()
    nlong = 400 if tier == 'quick' else 4000
    try:
        resl = engine.tlc_replay(rep, pool, 'MC_Ties', replay, consts={'N': 0, 'Variants': {'rev', 'two', 'big'}, 'WithFiles': True, 'LongNs': {25, 60}},
                                 invariants=INVS, properties=['WriterBridge', 'ReaderBridge'], on_result=on_result, timeout=3000,
                                 simulate=(max(1, nlong // common.NCPU), 300), seed=seed, label='MC_Ties long lists (sampled)')
    finally:
        pool.close()
    rep.notes.append('long lists (25 and 60 entries): %d sampled decision vectors' % resl['exports'])
    # very long lists (300 entries, beyond one byte / beyond CPython's small-integer cache): only the end-of-run laws
    pool = engine.Pool()
    try:
        resv = engine.tlc_replay(rep, pool, 'MC_Ties', replay, consts={'N': 0, 'Variants': {'rev'}, 'WithFiles': False, 'LongNs': {300}},
                                 invariants=['OrderPreserved', 'SameRankIffTied', 'DenseRanks', 'Export'], on_result=on_result, timeout=3000,
                                 simulate=(2 if tier == 'quick' else 8, 1300), seed=seed + 7, label='MC_Ties lists of 300 entries (sampled)')
    finally:
        pool.close()
    rep.notes.append('lists of 300 entries: %d sampled decision vectors' % resv['exports'])
    # lists of ANY length: the finite abstraction of the two automata (TiesAbs.tla), bridged to the concrete
    # automata by the action properties WriterBridge / ReaderBridge checked above
    ra = tlc.run('TiesAbs', spec='ASpec', invariants=['SameRankIffTiedA', 'IncZeroOrOne', 'DepthZeroOne', 'BalancedAtEnd', 'OpenMeansTied', 'InSync'],
                 extra_files=['unbounded/TiesAbs.tla'], label='TiesAbs (all list lengths)', workers=2, timeout=600)
    tlc.require_ok(ra, 'C13')
    rep.add_tlc(tlc.stats_of(ra))
    rep.cov['unbounded_abstraction'] = {'module': 'spec/unbounded/TiesAbs.tla', 'abstract_states': ra['distinct'],
                                        'laws': ['SameRankIffTiedA', 'IncZeroOrOne', 'DepthZeroOne', 'BalancedAtEnd', 'OpenMeansTied', 'InSync'],
                                        'bridge': 'TLC PROPERTY WriterBridge, ReaderBridge on MC_Ties (every concrete step is an abstract step)'}
    rep.notes.append('TiesAbs: %d abstract states cover lists of every length and every decision vector' % ra['distinct'])
    rep.evaluations = res['exports']
    rep.distinct = set(range(seen['nt']))
    rep.sample({'list': [3, 2, 1], 'ties': [1, 0, 1], 'tokens': ['(3', '2)', '1'], 'ranks': [1, 1, 2],
                'note': 'shape of an exported behaviour; all %d were replayed' % res['exports']})
    rep.assumptions = ['TLC/SANY and CommunityModules are correct', 'list entries are distinct positive integers (one or two digits)']
    return rep.finish(exhaustive=True,
                      rule='EXHAUSTIVE part: every list length 0..%d x every tie-indicator vector x 2 entry variants (and lengths 0..%d with '
                           'three-digit entries), enumerated by TLC; in addition sampled decision vectors for lists of 25 and 60 entries, and the '
                           'finite abstraction TiesAbs.tla for every length; non-trivial = at least one effective tie indicator' % (n, n3))
