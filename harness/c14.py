"""C14 - a run that was cut short or proved infeasible never presents a matching.

Level: fault enumeration.  MC_Faults.tla enumerates, for criteria sequences with
1-7 underlying solves, every placement of every failure kind (Infeasible,
Unbounded, Undefined, Not Solved, time-limit stop with incumbent), transient or
persistent, every pair of faults, time limit set/unset and duration patterns,
and proves the report rule on the specification.  Every plan is replayed into
the real code at the pulp boundary (outcomes injected in COIN_CMD.actualSolve,
three policies for what the back end leaves in the variables, virtual clock).
"""
import os

from . import common, engine, families as fm, impl, observe, restext, solverplay, tlc

INV = ['NoMatchingUnlessAllProven', 'FirstBadShown', 'ShowsFirstBadOrTimeout', 'StopsAtFirstBad', 'PlansAreOK', 'LateOrProvenHolds', 'ExportFault']
PROPS = ['StepRefinesAbs', 'BeginRefinesAbs']
INV_RUNS = ['NoMatchingUnlessAllProven', 'FirstBadShown', 'ShowsFirstBadOrTimeout', 'StopsAtFirstBad', 'PlansAreOKBoth', 'LateOrProvenHolds', 'SecondRunFresh', 'ExportRuns']
KINDS = {"Infeasible", "Unbounded", "Undefined", "Not Solved", "TLI"}
OUTCOME = {'TLI': 'TimeLimitIncumbent'}


def replay_fault(tag, rec):
    impl.ensure_repo()
    cl = solverplay.Clauses(rec)
    o = rec['o']
    plan = {i + 1: OUTCOME.get(p['o'], p['o']) for i, p in enumerate(rec['plan']) if p['o'] != 'ok'}
    durs = {i + 1: p['d'] / 1e6 for i, p in enumerate(rec['plan']) if p['d']}      # microseconds -> seconds
    cl.key = 'limit=%s plan=%s %s' % (rec['limit'], ' '.join('%s/%s' % (p['o'], p['d']) for p in rec['plan']), cl.key)
    exp = rec['presented']
    path = impl.write_text(o['text'])
    info = {'hash': rec.get('_h'), 'nfaults': len(plan), 'kind': exp['t'],
            'sample': {'argv': solverplay.argv_of(o, '<file>')[2:], 'limit': rec['limit'], 'plan': rec['plan'], 'spec_presents': exp}}
    try:
        argv = solverplay.argv_of(o, path)
        for policy in ('zeros', 'stale', 'ones', 'zeros after a healthy solve'):
            clock = observe.VirtualClock()
            r = solverplay.run_once(argv, seed=7, getters=('results', 'short', 'long'), plan=plan, durations=durs,
                                    clock=clock, values_on_fault=policy.split()[0],
                                    # whole seconds are passed as an int under one policy, as a float under the others
                                    timeLimit=((int(rec['limit'] // 1000000) if policy == 'ones' and rec['limit'] % 1000000 == 0 else rec['limit'] / 1e6) if rec['limit'] else None),
                                    keep_sets=False, presolve=policy.endswith('healthy solve'),
                                    postsolve=(policy == 'stale' and not rec['limit']))
            st, S = r['construct']
            if st != 'ok':
                cl.add('C14', 'construct', False, '%s %s' % (st, S))
                break
            # growth: the time limit given to solve() reaches the back end of every underlying solve
            lim = (rec['limit'] / 1e6) if rec['limit'] else None
            seen = [e.get('timeLimit') for e in r['events']]
            cl.add('X', 'backend_receives_time_limit', all(x == lim for x in seen), 'solve(timeLimit=%r): back end saw %s' % (lim, seen))
            if 'post_texts' in r or 'post_exc' in r:
                # growth: a healthy solve() on the same object after the failed run presents a result again
                okp = 'post_exc' not in r
                det = r.get('post_exc', '')
                if okp:
                    for g, t in r['post_texts'].items():
                        pp = restext.parse_results(t)
                        want_full = rec['nF0'] > 0
                        good = (('matching' in pp and pp.get('pulp_status') == 'Optimal') if want_full
                                else (pp.get('pulp_status') == 'Infeasible' and 'matching' not in pp))
                        if not good:
                            okp, det = False, '%s(): keys %s status %s, |F0|=%d' % (g, pp['keys'], pp.get('pulp_status'), rec['nF0'])
                cl.add('X', 'recovers_after_failed_run', okp, 'healthy solve() after the faulty run: %s' % det)
            if r['exc'] is not None:
                # an exception is not "presenting a matching"; it is reported under C02's no-exception clause
                cl.add('C02', 'solve_no_exception_under_faults', False, '%s (policy %s)' % (r['exc'], policy))
                continue
            for g in ('results', 'short', 'long'):
                t = r['texts'].get(g)
                if t is None:
                    cl.add('C02', 'getter_no_exception_under_faults', False, str(r.get('getter_exc', {}).get(g)))
                    continue
                p = restext.parse_results(t)
                shown = [k for k in restext.MATCHING_KEYS if k in p]
                if exp['t'] != 'full':
                    cl.add('C14', 'no_matching_fields_when_unproven', not shown,
                           '%s() shows %s although the run was not proven optimal (policy %s, text status %s)'
                           % (g, shown, policy, p.get('pulp_status')))
                if exp['t'] == 'timeout':
                    cl.add('C14', 'timeout_when_limit_and_exceeded_or_unsolved', 'timeout' in p,
                           '%s(): no Timeout line; keys %s (policy %s)' % (g, p['keys'], policy))
                elif exp['t'] == 'status':
                    cl.add('C14', 'shows_first_nonoptimal_status', p.get('pulp_status') == exp['status'] and 'timeout' not in p,
                           '%s(): shows status %r timeout=%s, first non-optimal status is %r (policy %s)'
                           % (g, p.get('pulp_status'), 'timeout' in p, exp['status'], policy))
                else:
                    cl.add('C14', 'full_when_all_proven', 'matching' in p and p.get('pulp_status') == 'Optimal',
                           '%s(): keys %s' % (g, p['keys']))
                    # growth: the timing lines are the virtual time spent in the underlying solves
                    try:
                        ts, tt, tm = float(p.get('time_solve_seconds')), float(p.get('time_total_seconds')), float(p.get('time_model_creation_seconds'))
                        cl.add('X', 'timing_lines_match_clock', abs(ts - rec['elapsed'] / 1e6) < 1e-9 and abs(tt - ts - tm) < 1e-9 and tm == 0.0,
                               'time_solve %r total %r creation %r, virtual time spent in solves %r' % (ts, tt, tm, rec['elapsed'] / 1e6))
                    except (TypeError, ValueError):
                        cl.add('X', 'timing_lines_match_clock', False, 'timing lines unreadable: %s' % p['keys'])
                if g == 'short' and rec['critsStarted'] >= 0:
                    names = p['optimisations']
                    if all(not n.startswith('?') for n in names):
                        e = [c['c'] for c in rec['crits']][:rec['critsStarted']]
                        cl.add('C16', 'reported_prefix', names == e, "'- optimisation:' lines %s, spec prefix %s (policy %s)" % (names, e, policy))
        return cl.out, info
    finally:
        os.unlink(path)


def _judge(cl, texts, exp, limit, elapsed, total, policy, which, nF0):
    """C14 clauses on the texts of ONE run of a history.  exp: what the specification presents for that run
    (decided by the run alone); total: virtual time since construction.  Where 'the run exceeded the limit'
    and 'the time since construction exceeded the limit' differ, Timeout-versus-result is not judged."""
    ambiguous = bool(limit) and exp['t'] != 'timeout' and total > limit >= elapsed
    for g in ('results', 'short', 'long'):
        t = texts.get(g)
        if t is None:
            cl.add('C02', 'getter_no_exception_under_faults', False, '%s() after %s' % (g, which))
            continue
        p = restext.parse_results(t)
        shown = [k for k in restext.MATCHING_KEYS if k in p]
        tag = '%s, %s, policy %s' % (which, g, policy)
        if exp['t'] != 'full':
            cl.add('C14', 'no_matching_fields_when_unproven', not shown,
                   '%s() shows %s although the run was not proven optimal (%s, text status %s)' % (g, shown, tag, p.get('pulp_status')))
        if exp['t'] == 'timeout':
            cl.add('C14', 'timeout_when_limit_and_exceeded_or_unsolved', 'timeout' in p, '%s(): no Timeout line; keys %s (%s)' % (g, p['keys'], tag))
        elif exp['t'] == 'status':
            if not limit:
                cl.add('C14', 'no_timeout_without_limit', 'timeout' not in p, '%s(): Timeout line although this run had no time limit (%s)' % (g, tag))
            if ambiguous and 'timeout' in p:
                continue
            cl.add('C14', 'shows_first_nonoptimal_status', p.get('pulp_status') == exp['status'] and 'timeout' not in p,
                   '%s(): shows status %r timeout=%s, first non-optimal status of this run is %r (%s)'
                   % (g, p.get('pulp_status'), 'timeout' in p, exp['status'], tag))
        else:
            if ambiguous and 'timeout' in p:
                continue
            # a run whose solves were all proven presents its result again, whatever the earlier run was (growth: C14 does not demand it)
            cl.add('X', 'full_when_all_proven_in_history', 'matching' in p and p.get('pulp_status') == 'Optimal' and 'timeout' not in p,
                   '%s(): keys %s (%s)' % (g, p['keys'], tag))


def replay_runs(tag, rec):
    """MC_Runs: an earlier run (own limit, one fault or slow solve, or healthy), every getter, then the later run."""
    impl.ensure_repo()
    cl = solverplay.Clauses(rec)
    o, f = rec['o'], rec['first']

    def pl(plan):
        return ({i + 1: OUTCOME.get(p['o'], p['o']) for i, p in enumerate(plan) if p['o'] != 'ok'},
                {i + 1: p['d'] / 1e6 for i, p in enumerate(plan) if p['d']})
    plan1, durs1 = pl(f['plan'])
    plan2, durs2 = pl(rec['plan'])
    cl.key = 'run1 limit=%s plan=%s ; run2 limit=%s plan=%s %s' % (
        f['limit'], ' '.join('%s/%s' % (p['o'], p['d']) for p in f['plan']),
        rec['limit'], ' '.join('%s/%s' % (p['o'], p['d']) for p in rec['plan']), cl.key)
    path = impl.write_text(o['text'])
    info = {'hash': rec.get('_h'), 'nfaults': len(plan1) + len(plan2), 'kind': 'runs:%s>%s' % (f['presented']['t'], rec['presented']['t']),
            'sample': {'argv': solverplay.argv_of(o, '<file>')[2:], 'run1': {'limit': f['limit'], 'plan': f['plan'], 'spec_presents': f['presented']},
                       'run2': {'limit': rec['limit'], 'plan': rec['plan'], 'spec_presents': rec['presented']}}}
    try:
        argv = solverplay.argv_of(o, path)
        for policy in ('zeros', 'stale'):
            clock = observe.VirtualClock()
            r = solverplay.run_once(argv, seed=11, getters=('results', 'short', 'long'), plan=plan2, durations=durs2, clock=clock,
                                    values_on_fault=policy, timeLimit=(rec['limit'] / 1e6 if rec['limit'] else None), keep_sets=False,
                                    prerun={'plan': plan1, 'durations': durs1, 'timeLimit': (f['limit'] / 1e6 if f['limit'] else None)})
            st, S = r['construct']
            if st != 'ok':
                cl.add('C14', 'construct', False, '%s %s' % (st, S))
                break
            if 'pre_exc' in r:
                cl.add('C02', 'solve_no_exception_under_faults', False, 'earlier run: %s (policy %s)' % (r['pre_exc'], policy))
                continue
            _judge(cl, r['pre_texts'], f['presented'], f['limit'], f['elapsed'], f['elapsed'], policy, 'earlier run', rec['nF0'])
            if r['exc'] is not None:
                cl.add('C02', 'solve_no_exception_under_faults', False, 'later run: %s (policy %s)' % (r['exc'], policy))
                continue
            _judge(cl, r['texts'], rec['presented'], rec['limit'], rec['elapsed'], rec['total'], policy, 'later run', rec['nF0'])
            lim = (rec['limit'] / 1e6) if rec['limit'] else None
            seen = [e.get('timeLimit') for e in r['events']]
            cl.add('X', 'backend_receives_time_limit', all(x == lim for x in seen), 'later run solve(timeLimit=%r): back end saw %s' % (lim, seen))
        return cl.out, info
    finally:
        os.unlink(path)


def runs_for(tier):
    q = tier == 'quick'
    C = fm.C
    base = dict(NS=2, NP=2, NL=1, MaxLen=2, TieMode='none', AllowEmpty=False, PQ={(0, 1)}, LQ={(0, 2, 2)}, Sided={'one'}, PCs={False})
    f1 = fm.fam(CritLists=[(C('maxsize'), C('gen'), C('mincost')), (C('gre'),), (C('gen', 2), C('lsb'))], **base)
    f1.update(Limits={0, 4000000}, FaultKinds=KINDS, MaxFaults=2)
    f2 = fm.fam(CritLists=[(), (C('maxsize'),), (C('minsize'), C('gre'), C('gen'), C('mincostlsb'), C('lmb'))],
                **dict(base, PQ={(0, 1), (1, 1)}, MaxLen=2, TieMode='all'))
    f2.update(Limits={0, 4000000}, FaultKinds=KINDS, MaxFaults=2)
    runs = [dict(label='2 students x {maxsize,gen,mincost | gre | gen 2,lsb}: all single and double faults', consts=f1, sim=None if not q else 30000),
            dict(label='ties/lower quotas x {none | maxsize | 5 criteria, 7 solves}', consts=f2, sim=20000 if q else 200000)]
    return runs


def tlaps_stage(rep):
    """Unbounded: TLAPS re-checks FaultProofs.tla over MPSolverAbs.tla (the module MPSolver.tla extends)."""
    import re
    import shutil
    import subprocess
    wd = common.subdir('tlaps-%d' % os.getpid())
    shutil.copy(os.path.join(common.SPEC, 'MPSolverAbs.tla'), wd)
    shutil.copy(os.path.join(common.SPEC, 'unbounded', 'FaultProofs.tla'), wd)
    try:
        r = subprocess.run(['timeout', '900', 'tlapm', '--toolbox', '0', '0', 'FaultProofs.tla'], cwd=wd, capture_output=True, text=True)
        txt = r.stdout + r.stderr
    except FileNotFoundError:
        txt = 'tlapm not found'
    m = re.search(r'All (\d+) obligations proved', txt)
    rep.cov['tlaps_fault_proofs'] = {'module': 'spec/unbounded/FaultProofs.tla over spec/MPSolverAbs.tla', 'all_proved': bool(m),
                                     'obligations': int(m.group(1)) if m else 0,
                                     'theorems': ['BeginEstablishes', 'StepPreserves', 'StutterPreserves', 'PresentedFullIsProven'],
                                     'bridge': 'TLC PROPERTY StepRefinesAbs, BeginRefinesAbs and INVARIANT PlansAreOK, LateOrProvenHolds on every MC_Faults family'}
    if not m:
        common.machinery_exit(rep.pid, 'TLAPS could not re-check FaultProofs.tla: %s' % txt[-600:])
    rep.notes.append('TLAPS: %s obligations of FaultProofs.tla proved (every instance, criteria list and outcome plan)' % m.group(1))


def main(tier, seed):
    rep = common.Report('C14', tier, seed, level='fault_enumeration')
    pool = engine.Pool()
    seen = set()

    def on_result(info):
        rep.evaluations += 1
        if info['nfaults'] >= 1:
            rep.distinct.add(info['hash'])
        rep.sample(info['sample'])
        rep.cov.setdefault('presented_kinds', {}).setdefault(info['kind'], 0)
        rep.cov['presented_kinds'][info['kind']] += 1
    try:
        for i, r in enumerate(runs_for(tier)):
            kw = {}
            if r['sim']:
                kw = dict(simulate=(max(1, r['sim'] // common.NCPU), 40), seed=seed + i)

            def flt(tag, rec):
                import hashlib
                h = hashlib.sha1(repr((sorted(rec['o'].items(), key=str), rec['plan'], rec['limit'])).encode()).hexdigest()[:16]
                if h in seen:
                    return False
                seen.add(h)
                rec['_h'] = h
                return True
            res = engine.tlc_replay(rep, pool, 'MC_Faults', replay_fault, consts=r['consts'], invariants=INV, spec='FSpec', properties=PROPS,
                                    label=r['label'], on_result=on_result, export_filter=flt, timeout=3000, **kw)
            rep.notes.append('%s: %s, %d plans exported, %d states' % (r['label'], 'simulate' if r['sim'] else 'exhaustive BFS', res['exports'], res['distinct']))
    finally:
        pool.close()
    # histories of two runs on one object (MC_Runs.tla)
    q = tier == 'quick'
    C = fm.C
    base = dict(NS=2, NP=2, NL=1, MaxLen=2, TieMode='none', AllowEmpty=False, PQ={(0, 1), (1, 1)}, LQ={(0, 2, 2)}, Sided={'one'}, PCs={False})
    fr = fm.fam(CritLists=[(), (C('maxsize'), C('gre')), (C('gen'), C('mincost'))], **base)
    fr.update(Limits={0, 4000000}, FaultKinds=KINDS, MaxFaults=1)
    pool = engine.Pool()
    try:
        def flt2(tag, rec):
            import hashlib
            h = hashlib.sha1(repr((sorted(rec['o'].items(), key=str), rec['plan'], rec['limit'], rec['first']['plan'], rec['first']['limit'])).encode()).hexdigest()[:16]
            if h in seen:
                return False
            seen.add(h)
            rec['_h'] = h
            return True
        nsim = 12000 if q else 150000
        res = engine.tlc_replay(rep, pool, 'MC_Runs', replay_runs, consts=fr, invariants=INV_RUNS, spec='RunsSpec', properties=PROPS,
                                label='two runs on one object: earlier run {healthy | one fault | one slow solve} x limit, later run: all single faults',
                                on_result=on_result, export_filter=flt2, timeout=3000,
                                simulate=(max(1, nsim // common.NCPU), 60), seed=seed + 7)
        rep.notes.append('MC_Runs: simulate, %d two-run histories exported, %d states' % (res['exports'], res['distinct']))
    finally:
        pool.close()
    tlaps_stage(rep)
    rep.assumptions = ['a time-limit stop of one solve takes at least the limit (per-solve limit = overall limit)',
                       'faults are injected at COIN_CMD.actualSolve as PuLP would report them (status + solution status)',
                       'after a failed solve the back end may leave zeros, stale values or arbitrary 0/1 values in the variables']
    return rep.finish(exhaustive=(tier != 'quick'), rule='fault plans enumerated by TLC: every placement x kind x transient/persistent, all pairs, '
                                       'limit set/unset, duration patterns; each replayed under 3 value policies; '
                                       'non-trivial = plan contains at least one fault')
