"""C15 - generator accepts every documented argument set and cleanly rejects invalid ones."""
from . import common, engine, genprops


def main(tier, seed):
    q = tier == 'quick'
    rep = common.Report('C15', tier, seed)
    pool = engine.Pool()
    try:
        genprops.m1_generate(rep, tier)
        traces = genprops.collect(rep, pool, tier, seed, perturb=True, nseeds=1, maxn=2, rich=False,
                                  label='counts <= 2, all single-fault perturbations')
        if not q:
            traces += genprops.collect(rep, pool, tier, seed, perturb=True, nseeds=2, maxn=3, rich=True,
                                       label='counts <= 3, rich optional domains, all perturbations')
        genprops.validate(rep, traces[:3000 if q else 20000], own={'C15'})
    finally:
        pool.close()
    rep.assumptions = ['argparse itself is trusted', 'tie probabilities are multiples of 1/4 and skews multiples of 1/2 in the families']
    return rep.finish(exhaustive=True, rule='every legal argument vector of the focus families (MC_Gen.tla) and every single-fault perturbation '
                                            '(required option dropped, inapplicable option added, bound violated); non-trivial = all')
