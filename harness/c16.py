"""C16 - criteria run in position order; invalid option sets are refused.

M1: MC_Options.tla (slot placement + compaction refines the declarative order
    and refusal rule) over position families; MC_Solver families with permuted
    flag order and gaps give the order of SOLVES (each solve's optimum must be
    the specification's optimum of the expected criterion).
M2: every exported command line is replayed into Solver(argv): refusals must be
    SystemExit(2) before the (non-existent) file is touched; accepted ones must
    parse to the specified order, and on a real instance the '- optimisation:'
    lines and the number of solves must follow it.
"""
import os

from . import common, engine, families as fm, impl, lpcheck, restext, solverplay, tlc

INST = '2 2 2\n1: 1 2\n2: (1 2)\n1: 0: 1: 1\n2: 0: 1: 2\n1: 0: 1: 1: 1 2\n2: 0: 1: 1: (1 2)\n'


def replay_opts(tag, rec):
    impl.ensure_repo()
    out = []
    flags = rec['flags']
    nm = rec.get('names')
    key = 'twopl=%d stab=%d flags=%s' % (rec['twopl'], rec['stab'], ' '.join('%s@%s%s' % ((nm['flags'][i] if nm else f['c']), f['pos'], f['x'] or '') for i, f in enumerate(flags)))
    if nm and nm['fixed']['f'] != '-f':
        key += ' long fixed options'

    def cl(name, ok, what=''):
        out.append((name, bool(ok), key + ' | ' + name, what, None if ok else {'behaviour': rec, 'observed': what}, 'C16'))
        return ok
    o = {'na': 3, 'twopl': rec['twopl'], 'pc': False, 'stab': rec['stab'], 'flags': flags}
    missing = os.path.join(common.scratch(), 'no-such-dir', 'no-such-file.txt')
    st, val = impl.construct_solver(solverplay.argv_of(o, missing, nm))
    if rec['refused']:
        cl('refused_is_usage_error_before_reading', st == 'exit' and val == 2,
           'Solver(argv) with a missing file -> %s %s (expected SystemExit(2) from the option check)' % (st, val))
    else:
        cl('accepted_reaches_file_reading', st == 'exc' and 'FileNotFoundError' in str(val),
           'Solver(argv) with a missing file -> %s %s (expected FileNotFoundError: options accepted)' % (st, val))
        path = impl.write_text(INST)
        try:
            argv = solverplay.argv_of(o, path, nm)
            r = solverplay.run_once(argv, seed=1, getters=('short',))
            st, S = r['construct']
            if cl('accepted_constructs', st == 'ok', '%s %s' % (st, S)):
                S = r['solver']
                got = [(solverplay.ENUM2NAME.get(c.name, c.name), list(x) if x else []) for (c, x) in S.options_parser.optimisation_options]
                exp = [(c['c'], list(c['x'])) for c in rec['order']]
                cl('parsed_order', got == exp, 'optimisation_options %s, spec %s' % (got, exp))
                cl('solve_no_exception', r['exc'] is None, str(r['exc']))
                t = r['texts'].get('short')
                if t is not None:
                    names = restext.parse_results(t)['optimisations']
                    if all(not n.startswith('?') for n in names):
                        cl('reported_order', names == [c for c, _ in exp], "'- optimisation:' lines %s, spec %s" % (names, [c for c, _ in exp]))
        finally:
            os.unlink(path)
    return out, {'hash': key, 'refused': rec['refused'], 'n': len(flags),
                 'sample': {'argv': solverplay.argv_of(o, '<file>', nm)[2:], 'spec_refused': rec['refused'], 'spec_order': rec['order']}}


def main(tier, seed):
    q = tier == 'quick'
    rep = common.Report('C16', tier, seed)
    pool = engine.Pool()
    posdom = {-1, 0, 1, 2, 5, 9, 10}
    inv = ['Refines', 'OrderLaws', 'Export']

    def on_result(info):
        rep.evaluations += 1
        if info['n'] >= 2:
            rep.distinct.add(info['hash'])
        rep.sample(info['sample'])
    try:
        runs = [('<=2 flags exhaustive', dict(PosDomain=posdom, MaxFlags=2, MinFlags=0, ExtraMode='none', Spellings={False, True}), None),
                ('<=2 flags with extras, positions 1..3', dict(PosDomain={1, 2, 3}, MaxFlags=2, MinFlags=1, ExtraMode='some', Spellings={False, True}), None),
                ('3..9 flags sampled', dict(PosDomain=set(range(0, 11)), MaxFlags=9, MinFlags=3, ExtraMode='some', Spellings={False, True}), 4000 if q else 60000),
                ('1..9 flags legal positions sampled', dict(PosDomain=set(range(1, 10)), MaxFlags=9, MinFlags=1, ExtraMode='some', Spellings={False, True}), 3000 if q else 40000)]
        if not q:
            runs.append(('<=3 flags exhaustive', dict(PosDomain=posdom, MaxFlags=3, MinFlags=3, ExtraMode='none', Spellings={False}), None))
        for i, (label, consts, sim) in enumerate(runs):
            kw = {}
            if sim:
                kw = dict(simulate=(max(1, sim // common.NCPU), 14), seed=seed + i)
            res = engine.tlc_replay(rep, pool, 'MC_Options', replay_opts, consts=consts, invariants=inv, label=label,
                                    on_result=on_result, timeout=3000, **kw)
            rep.notes.append('%s: %s, %d command lines, %d states' % (label, 'simulate' if sim else 'exhaustive', res['exports'], res['distinct']))
    finally:
        pool.close()
    # order of the SOLVES on MC_Solver families with permuted flags and gaps
    R = fm.run_spec
    lpruns = [R('s2core x 2-3 criteria (id/rev/gap)', fm.s2core(Press={'id', 'rev', 'gap'}, MaxLen=2, PCs={False}, Stabs={False}, **fm.build(2, 3)),
                simulate=3000 if q else 40000),
              R('wide x 2-5 criteria', fm.wide(Press={'id', 'rev', 'gap'}, **fm.build(2, 4)), simulate=2000 if q else 30000)]
    rep.owns = {'C16'}
    lpcheck.run_lp_check('C16', tier, seed, lpruns, report=rep, finish=False,
                         nontrivial=lambda i: i['ncrit'] >= 2)
    # "only the prefix up to the first solve that does not reach Optimal is reported": fault plans of MC_Faults
    from . import c14
    pool2 = engine.Pool()
    seen = set()

    def flt(tag, rec):
        import hashlib
        h = hashlib.sha1(repr((sorted(rec['o'].items(), key=str), rec['plan'], rec['limit'])).encode()).hexdigest()[:16]
        if h in seen:
            return False
        seen.add(h)
        rec['_h'] = h
        return True
    try:
        for i, r in enumerate(c14.runs_for(tier)):
            sim = 6000 if q else 60000
            res = engine.tlc_replay(rep, pool2, 'MC_Faults', c14.replay_fault, consts=r['consts'], invariants=c14.INV, spec='FSpec',
                                    label='reported prefix under faults: ' + r['label'], export_filter=flt, timeout=3000,
                                    simulate=(max(1, sim // common.NCPU), 40), seed=seed + 50 + i)
            rep.notes.append('reported prefix under fault plans: %d plans' % res['exports'])
    finally:
        pool2.close()
    rep.assumptions = ['argparse itself is trusted', 'wording of the optimisation lines is mapped by keyword; unknown wording disables only that sub-comparison']
    return rep.finish(exhaustive=False,
                      rule='command lines built flag by flag by TLC (positions around 1..9, extras, -twopl/-stab); non-trivial = at least two criterion flags')
