"""C17 - popularity skew is linear with the requested ratio.

M1: MC_Skew.tla, exact rationals: positive, sum one, arithmetic progression,
    last = s * first, single agent -> <<1>>, for all n <= N and s = p/q.
M2: create_linear_distribution(n, p/q) compared with the exported rationals
    (the function returns floats: relative tolerance 1e-9) and the same laws
    re-checked on the floats.
"""
import os
from fractions import Fraction

from . import common, engine, impl, tlc

TOL = 1e-9


def replay_skew(tag, rec):
    impl.ensure_repo()
    from matchingproblems.generator import generator_shared as gs
    n, p, q = rec['n'], rec['p'], rec['q']
    exp = [Fraction(a, b) for a, b in rec['dist']]
    key = 'n=%d s=%d/%d' % (n, p, q)
    out = []

    def cl(name, ok, what=''):
        # numpy integer arguments are recorded as growth (X), never part of the verdict: the statement speaks of numbers
        owner = 'X' if ('numpy_int64' in name or '_np_n' in name) else 'C17'
        out.append((name, bool(ok), key + ' | ' + name, what, None if ok else {'n': n, 'p': p, 'q': q, 'spec': rec['dist'], 'observed': what}, owner))
    import numpy as np
    # the same skew in every numeric presentation a caller may use (the docstring's own example passes an integer)
    pres = [('', p / q), ('numpy.float64 ', np.float64(p / q))]
    if q == 1:
        pres += [('int ', int(p)), ('numpy.int64 ', np.int64(p))]
    for pname, sval in pres:
        sfx = '_' + pname.strip().replace('.', '_') if pname else ''
        for nname, nval in (('', n),) + ((('numpy.int64 n ', np.int64(n)),) if pname == '' and n <= 12 else ()):
            tag2 = sfx + ('_np_n' if nname else '')
            try:
                d = [float(x) for x in gs.create_linear_distribution(nval, sval)]
            except BaseException as e:  # noqa
                cl('no_exception' + tag2, False, '%s%s%s: %s' % (pname, nname, type(e).__name__, e))
                if not pname and not nname:
                    return out, {'hash': key, 'n': n, 'sample': {'n': n, 's': '%d/%d' % (p, q)}}
                continue
            cl('length' + tag2, len(d) == n, '%s%slength %d' % (pname, nname, len(d)))
            if len(d) == n:
                cl('equals_spec_rationals' + tag2, all(abs(a - float(b)) <= TOL * max(1.0, abs(float(b))) for a, b in zip(d, exp)),
                   '%s%sskew: floats %s, spec %s' % (pname, nname, d, [str(x) for x in exp]))
                if pname or nname:
                    continue
                cl('positive', all(x > 0 for x in d), str(d))
                cl('sums_to_one', abs(sum(d) - 1.0) <= TOL, 'sum %r' % sum(d))
                if n >= 2:
                    cl('last_is_s_times_first', abs(d[-1] - (p / q) * d[0]) <= TOL, 'first %r last %r s %r' % (d[0], d[-1], p / q))
                cl('arithmetic', all(abs((d[i + 1] - d[i]) - (d[i] - d[i - 1])) <= TOL for i in range(1, n - 1)), str(d))
    # the weights USED FOR DRAWING (MC_Skew: Draw, UsedAreThisRuns): a history of two generator runs in one process with the
    # same number of rankable agents - first another skew, then this one; whatever reaches the drawing routine in the
    # second run must be this triple's weights (as a multiset: the pairing of weights and agents is the generator's business)
    if n <= 12 and p <= 12 and q <= 12:
        mp = ('ha', 'hr', 'sm', 'spa')[(n + p + 2 * q) % 4]
        other = (p + q) / q if p != q else 3.0
        runs = used_weights(n, [other, p / q], mp)
        r2 = runs[1]
        if isinstance(r2, str) or isinstance(runs[0], str):
            cl('use_run_no_exception', False, '%s run: %s' % (mp, r2 if isinstance(r2, str) else runs[0]))
        elif r2 and any(len(w) == n for w in r2):
            # (no draw observed at numpy.random.choice: nothing to compare - a generator that draws otherwise is not judged here)
            want = sorted(float(b) for b in exp)
            # (only weight vectors over ALL n agents are judged: a generator that draws one agent at a time over the remaining
            #  agents hands over renormalised sub-vectors, which the statement does not describe)
            r2 = [w for w in r2 if len(w) == n]
            bad = [w for w in r2 if any(abs(a - b) > TOL * max(1.0, abs(b)) for a, b in zip(sorted(w), want))]
            cl('weights_used_for_drawing', not bad,
               '-mp %s, %d rankable agents, run with -skew %r after a run with -skew %r in the same process: %d of %d draws used weights %s, spec %s'
               % (mp, n, p / q, other, len(bad), len(r2), (bad or [None])[0], [str(x) for x in exp]))
    return out, {'hash': key, 'n': n, 'sample': {'n': n, 's': '%d/%d' % (p, q), 'spec_weights': ['%d/%d' % tuple(x) for x in rec['dist']][:4]}}


def used_weights(n, skews, mp):
    """Runs the real Generator once per skew IN THIS PROCESS, in order, with n rankable agents, and returns per
    run the weight vectors that reached numpy.random.choice (None when a run failed).  No repository hook:
    the drawing routine is a numpy entry point."""
    import shutil
    import tempfile
    import numpy as np
    impl.ensure_repo()
    from matchingproblems.generator.generator import Generator
    seen = []
    orig = np.random.choice

    def spy(*a, **kw):
        pv = kw.get('p', a[3] if len(a) > 3 else None)
        repl = kw.get('replace', a[2] if len(a) > 2 else True)
        # a preference list is drawn WITHOUT replacement (the tie indicators are drawn with replacement: not weights of agents)
        if pv is not None and not repl:
            seen.append([float(x) for x in pv])
        return orig(*a, **kw)
    out = []
    root = tempfile.mkdtemp(prefix='skewuse-', dir=common.scratch())
    np.random.choice = spy
    try:
        for i, sk in enumerate(skews):
            del seen[:]
            d = os.path.join(root, 'r%d' % i)
            pm = min(2, n)
            tail = {'ha': '-n1 3 -n2 %d -pmin 1 -pmax %d -uq %d' % (n, pm, n),
                    'hr': '-n1 3 -n2 %d -pmin 1 -pmax %d -uq %d -twopl' % (n, pm, n),
                    'sm': '-n1 %d -pmin 1 -pmax %d -twopl' % (n, pm),
                    'spa': '-n1 3 -n2 %d -n3 1 -pmin 1 -pmax %d -uq %d -luq 3' % (n, pm, n)}[mp]
            try:
                with impl.quiet():
                    Generator(('-numinst 2 -o %s -mp %s %s -skew %r' % (d, mp, tail, sk)).split())
                out.append([list(x) for x in seen])
            except BaseException as e:  # noqa
                out.append('%s: %s' % (type(e).__name__, e))
    finally:
        np.random.choice = orig
        shutil.rmtree(root, ignore_errors=True)
    return out


def first_choice_stage(rep, seed, tier):
    """'... so that the most popular agent is exactly s times as likely to be drawn FIRST as the least popular one':
    the first entry of a drawn list is agent i with probability Weights[i] (MC_Skew: the weights are a probability
    distribution - Positive, SumsToOne - and Draw uses them for every list, whatever its length).  Decided statistically,
    like 'every length can occur' in C08: the real Generator writes N one-sided lists per shape (complete lists, one-entry
    lists, mixed lengths), the sorted first-choice frequencies read from the file are compared with the sorted exported
    weights.  N = 6000: standard deviation <= 0.0065, tolerance 0.04 (> 6 sigma: false-alarm probability < 1e-8 per
    comparison); the seeds are fixed, so the verdict on a given tree is deterministic."""
    import random
    import shutil
    import tempfile
    import numpy as np
    impl.ensure_repo()
    from matchingproblems.generator.generator import Generator
    N = 6000
    shapes = [(2, 2, 2, 9, 1), (3, 3, 3, 3, 1), (3, 1, 1, 3, 1), (3, 1, 3, 5, 1), (2, 1, 2, 4, 1), (4, 4, 4, 7, 2), (5, 2, 5, 3, 2)]
    if tier != 'quick':
        shapes += [(6, 6, 6, 11, 1), (4, 1, 4, 1, 1), (8, 5, 8, 9, 2), (3, 3, 3, 1, 3)]
    root = tempfile.mkdtemp(prefix='firstchoice-', dir=common.scratch())
    try:
        for j, (n, pmin, pmax, sp, sq) in enumerate(shapes):
            key = 'n=%d pmin=%d pmax=%d s=%d/%d' % (n, pmin, pmax, sp, sq)
            random.seed(seed * 101 + j)
            np.random.seed((seed * 101 + j) % (2 ** 32))
            d = os.path.join(root, 's%d' % j)
            mp = 'ha' if j % 2 == 0 else 'spa'
            tail = ('-n1 %d -n2 %d -pmin %d -pmax %d -uq %d' % (N, n, pmin, pmax, N)) + (' -n3 1 -luq %d' % N if mp == 'spa' else '')
            try:
                with impl.quiet():
                    Generator(('-numinst 1 -o %s -mp %s %s -skew %r' % (d, mp, tail, sp / sq)).split())
                lines = open(os.path.join(d, '0.txt')).read().split('\n')[1:N + 1]
                firsts = [int(l.split(':', 1)[1].split()[0].strip('()')) for l in lines]
            except BaseException as e:  # noqa
                rep.clause('first_choice_frequencies_follow_weights', False, key=key, what='%s run: %s: %s' % (mp, type(e).__name__, e))
                continue
            freq = sorted(sum(1 for x in firsts if x == a) / float(N) for a in range(1, n + 1))
            # exact weights: arithmetic progression 1 .. s normalised (the rationals MC_Skew exports for this triple)
            raw = [Fraction((n - 1) * sq + i * (sp - sq), 1) for i in range(n)] if n > 1 else [Fraction(1)]
            want = sorted(float(x / sum(raw)) for x in raw)
            ok = len(firsts) == N and all(abs(f - w) < 0.04 for f, w in zip(freq, want))
            rep.clause('first_choice_frequencies_follow_weights', ok, key=key,
                       what='-mp %s, %d lists of %d..%d of %d agents, skew %s: sorted first-choice frequencies %s, weights %s'
                            % (mp, N, pmin, pmax, n, sp / sq, [round(f, 3) for f in freq], [round(w, 3) for w in want]))
    finally:
        shutil.rmtree(root, ignore_errors=True)


def main(tier, seed):
    q = tier == 'quick'
    rep = common.Report('C17', tier, seed)
    pool = engine.Pool()
    Ns = set(range(1, 13)) | {25, 100} if q else set(range(1, 25)) | {25, 50, 100, 300}
    Ps = set(range(1, 13)) | {999, 1000, 1001} if q else set(range(1, 41)) | {999, 1000, 1001}
    Qs = set(range(1, 13)) | {1000}
    triples = {(n_, p_, q_) for n_ in Ns for p_ in Ps for q_ in Qs}
    # skews within 1e-5 .. 1e-9 of 1 (but not 1), and very large / very small ones
    for n_ in (2, 3, 5, 12, 25):
        for p_, q_ in ((100001, 100000), (99999, 100000), (1000001, 1000000), (999999, 1000000), (100000, 1), (1, 100000)):
            triples.add((n_, p_, q_))
    triples = {t for t in triples if t[0] * (t[0] - 1) * (t[1] + t[2]) < 2 ** 31}

    def on_result(info):
        rep.evaluations += 1
        if info['n'] >= 2:
            rep.distinct.add(info['hash'])
        rep.sample(info['sample'])
    try:
        res = engine.tlc_replay(rep, pool, 'MC_Skew', replay_skew, consts=dict(Triples=tlc.tla_set(triples)),
                                invariants=['Positive', 'SumsToOne', 'CommonDen', 'Arithmetic', 'LastIsSTimesFirst', 'LastFirstRatio', 'SingleAgent', 'UsedAreThisRuns', 'Export'],
                                on_result=on_result, timeout=1800)
    finally:
        pool.close()
    if res['exports'] != len(triples):
        common.machinery_exit('C17', 'exported %d, expected %d' % (res['exports'], len(triples)))
    first_choice_stage(rep, seed, tier)
    rep.assumptions = ['numeric equality up to relative tolerance 1e-9 (the function returns floats)',
                       'first-choice probabilities are decided statistically: 6000 lists per shape, tolerance 0.04 (> 6 sigma), fixed seeds']
    return rep.finish(exhaustive=True, rule='%d triples (n, p, q): all n in 1..12 (24) x p, q in 1..12 (40), plus n up to 100 (300), skews from 1/100000 to 100000 and '
                           'skews within 1e-5 and 1e-6 of 1; non-trivial = n >= 2' % len(triples))
