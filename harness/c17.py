"""C17 - popularity skew is linear with the requested ratio.

M1: MC_Skew.tla, exact rationals: positive, sum one, arithmetic progression,
    last = s * first, single agent -> <<1>>, for all n <= N and s = p/q.
M2: create_linear_distribution(n, p/q) compared with the exported rationals
    (the function returns floats: relative tolerance 1e-9) and the same laws
    re-checked on the floats.
"""
import os
from fractions import Fraction

from . import common, engine, impl, tlc

TOL = 1e-9


def replay_skew(tag, rec):
    impl.ensure_repo()
    from matchingproblems.generator import generator_shared as gs
    n, p, q = rec['n'], rec['p'], rec['q']
    exp = [Fraction(a, b) for a, b in rec['dist']]
    key = 'n=%d s=%d/%d' % (n, p, q)
    out = []

    def cl(name, ok, what=''):
        # numpy integer arguments are recorded as growth (X), never part of the verdict: the statement speaks of numbers
        owner = 'X' if ('numpy_int64' in name or '_np_n' in name) else 'C17'
        out.append((name, bool(ok), key + ' | ' + name, what, None if ok else {'n': n, 'p': p, 'q': q, 'spec': rec['dist'], 'observed': what}, owner))
    import numpy as np
    # the same skew in every numeric presentation a caller may use (the docstring's own example passes an integer)
    pres = [('', p / q), ('numpy.float64 ', np.float64(p / q))]
    if q == 1:
        pres += [('int ', int(p)), ('numpy.int64 ', np.int64(p))]
    for pname, sval in pres:
        sfx = '_' + pname.strip().replace('.', '_') if pname else ''
        for nname, nval in (('', n),) + ((('numpy.int64 n ', np.int64(n)),) if pname == '' and n <= 12 else ()):
            tag2 = sfx + ('_np_n' if nname else '')
            try:
                d = [float(x) for x in gs.create_linear_distribution(nval, sval)]
            except BaseException as e:  # noqa
                cl('no_exception' + tag2, False, '%s%s%s: %s' % (pname, nname, type(e).__name__, e))
                if not pname and not nname:
                    return out, {'hash': key, 'n': n, 'sample': {'n': n, 's': '%d/%d' % (p, q)}}
                continue
            cl('length' + tag2, len(d) == n, '%s%slength %d' % (pname, nname, len(d)))
            if len(d) == n:
                cl('equals_spec_rationals' + tag2, all(abs(a - float(b)) <= TOL * max(1.0, abs(float(b))) for a, b in zip(d, exp)),
                   '%s%sskew: floats %s, spec %s' % (pname, nname, d, [str(x) for x in exp]))
                if pname or nname:
                    continue
                cl('positive', all(x > 0 for x in d), str(d))
                cl('sums_to_one', abs(sum(d) - 1.0) <= TOL, 'sum %r' % sum(d))
                if n >= 2:
                    cl('last_is_s_times_first', abs(d[-1] - (p / q) * d[0]) <= TOL, 'first %r last %r s %r' % (d[0], d[-1], p / q))
                cl('arithmetic', all(abs((d[i + 1] - d[i]) - (d[i] - d[i - 1])) <= TOL for i in range(1, n - 1)), str(d))
    # the weights USED FOR DRAWING (MC_Skew: Draw, UsedAreThisRuns): a history of two generator runs in one process with the
    # same number of rankable agents - first another skew, then this one; whatever reaches the drawing routine in the
    # second run must be this triple's weights (as a multiset: the pairing of weights and agents is the generator's business)
    if n <= 12 and p <= 12 and q <= 12:
        mp = ('ha', 'hr', 'sm', 'spa')[(n + p + 2 * q) % 4]
        other = (p + q) / q if p != q else 3.0
        runs = used_weights(n, [other, p / q], mp)
        r2 = runs[1]
        if isinstance(r2, str) or isinstance(runs[0], str):
            cl('use_run_no_exception', False, '%s run: %s' % (mp, r2 if isinstance(r2, str) else runs[0]))
        elif r2 and any(len(w) == n for w in r2):
            # (no draw observed at numpy.random.choice: nothing to compare - a generator that draws otherwise is not judged here)
            want = sorted(float(b) for b in exp)
            # (only weight vectors over ALL n agents are judged: a generator that draws one agent at a time over the remaining
            #  agents hands over renormalised sub-vectors, which the statement does not describe)
            r2 = [w for w in r2 if len(w) == n]
            bad = [w for w in r2 if any(abs(a - b) > TOL * max(1.0, abs(b)) for a, b in zip(sorted(w), want))]
            cl('weights_used_for_drawing', not bad,
               '-mp %s, %d rankable agents, run with -skew %r after a run with -skew %r in the same process: %d of %d draws used weights %s, spec %s'
               % (mp, n, p / q, other, len(bad), len(r2), (bad or [None])[0], [str(x) for x in exp]))
    return out, {'hash': key, 'n': n, 'sample': {'n': n, 's': '%d/%d' % (p, q), 'spec_weights': ['%d/%d' % tuple(x) for x in rec['dist']][:4]}}


def used_weights(n, skews, mp):
    """Runs the real Generator once per skew IN THIS PROCESS, in order, with n rankable agents, and returns per
    run the weight vectors that reached numpy.random.choice (None when a run failed).  No repository hook:
    the drawing routine is a numpy entry point."""
    import shutil
    import tempfile
    import numpy as np
    impl.ensure_repo()
    from matchingproblems.generator.generator import Generator
    seen = []
    orig = np.random.choice

    def spy(*a, **kw):
        pv = kw.get('p', a[3] if len(a) > 3 else None)
        repl = kw.get('replace', a[2] if len(a) > 2 else True)
        # a preference list is drawn WITHOUT replacement (the tie indicators are drawn with replacement: not weights of agents)
        if pv is not None and not repl:
            seen.append([float(x) for x in pv])
        return orig(*a, **kw)
    out = []
    root = tempfile.mkdtemp(prefix='skewuse-', dir=common.scratch())
    np.random.choice = spy
    try:
        for i, sk in enumerate(skews):
            del seen[:]
            d = os.path.join(root, 'r%d' % i)
            pm = min(2, n)
            tail = {'ha': '-n1 3 -n2 %d -pmin 1 -pmax %d -uq %d' % (n, pm, n),
                    'hr': '-n1 3 -n2 %d -pmin 1 -pmax %d -uq %d -twopl' % (n, pm, n),
                    'sm': '-n1 %d -pmin 1 -pmax %d -twopl' % (n, pm),
                    'spa': '-n1 3 -n2 %d -n3 1 -pmin 1 -pmax %d -uq %d -luq 3' % (n, pm, n)}[mp]
            try:
                with impl.quiet():
                    Generator(('-numinst 2 -o %s -mp %s %s -skew %r' % (d, mp, tail, sk)).split())
                out.append([list(x) for x in seen])
            except BaseException as e:  # noqa
                out.append('%s: %s' % (type(e).__name__, e))
    finally:
        np.random.choice = orig
        shutil.rmtree(root, ignore_errors=True)
    return out


def growth_sampling(rep, seed):
    """Growth (statistical, recorded under X, never a verdict): the weights are what the generator samples first
    choices with.  6000 one-entry lists over 3 agents with skew 3: sorted frequencies ~ (1/6, 2/6, 3/6)."""
    import random
    import numpy as np
    impl.ensure_repo()
    from matchingproblems.generator import generator_shared as gs
    random.seed(seed)
    np.random.seed(seed % (2 ** 32))
    try:
        lists, _ = gs.create_pref_lists_original(6000, 3, 1, 1, 0.0, 3.0)
        cnt = sorted(sum(1 for l in lists if int(l[0]) == a) / 6000.0 for a in (1, 2, 3))
        ok = all(abs(c - e) < 0.035 for c, e in zip(cnt, (1 / 6, 2 / 6, 3 / 6)))
        what = 'sorted first-choice frequencies %s, weights (1/6, 2/6, 3/6)' % (cnt,)
    except BaseException as e:  # noqa
        ok, what = False, '%s: %s' % (type(e).__name__, e)
    rep.clause('X.first_choice_frequencies_follow_weights', ok, key='sampling', what=what, own=False)


def main(tier, seed):
    q = tier == 'quick'
    rep = common.Report('C17', tier, seed)
    pool = engine.Pool()
    Ns = set(range(1, 13)) | {25, 100} if q else set(range(1, 25)) | {25, 50, 100, 300}
    Ps = set(range(1, 13)) | {999, 1000, 1001} if q else set(range(1, 41)) | {999, 1000, 1001}
    Qs = set(range(1, 13)) | {1000}
    triples = {(n_, p_, q_) for n_ in Ns for p_ in Ps for q_ in Qs}
    # skews within 1e-5 .. 1e-9 of 1 (but not 1), and very large / very small ones
    for n_ in (2, 3, 5, 12, 25):
        for p_, q_ in ((100001, 100000), (99999, 100000), (1000001, 1000000), (999999, 1000000), (100000, 1), (1, 100000)):
            triples.add((n_, p_, q_))
    triples = {t for t in triples if t[0] * (t[0] - 1) * (t[1] + t[2]) < 2 ** 31}

    def on_result(info):
        rep.evaluations += 1
        if info['n'] >= 2:
            rep.distinct.add(info['hash'])
        rep.sample(info['sample'])
    try:
        res = engine.tlc_replay(rep, pool, 'MC_Skew', replay_skew, consts=dict(Triples=tlc.tla_set(triples)),
                                invariants=['Positive', 'SumsToOne', 'CommonDen', 'Arithmetic', 'LastIsSTimesFirst', 'LastFirstRatio', 'SingleAgent', 'UsedAreThisRuns', 'Export'],
                                on_result=on_result, timeout=1800)
    finally:
        pool.close()
    if res['exports'] != len(triples):
        common.machinery_exit('C17', 'exported %d, expected %d' % (res['exports'], len(triples)))
    growth_sampling(rep, seed)
    rep.assumptions = ['numeric equality up to relative tolerance 1e-9 (the function returns floats)']
    return rep.finish(exhaustive=True, rule='%d triples (n, p, q): all n in 1..12 (24) x p, q in 1..12 (40), plus n up to 100 (300), skews from 1/100000 to 100000 and '
                           'skews within 1e-5 and 1e-6 of 1; non-trivial = n >= 2' % len(triples))
