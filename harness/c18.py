"""C18 - result getters are read-only and re-solving is reproducible.

M1: MC_Hist.tla: every call sequence over {solve, get_results, _short, _long,
    get_debug} starting with solve (length <= MaxCalls): getters leave the
    solver state unchanged (action property), a second solve yields the same
    status, the same frozen values and the same admissible set.
M2: every exported history is replayed on ONE real Solver object.  The stand-in
    back end breaks ties differently at every solve, so that values - not
    matchings - are what must agree; a sample is also run with real CBC.
"""
import hashlib
import os

from . import common, engine, families as fm, impl, observe, restext, solverplay, tlc


DECOY = """3 3 2
1: (1 2) 3
2: 2 1
3: 3 (1 2)
1: 0: 1: 1
2: 0: 2: 1
3: 1: 1: 2
1: 0: 1: 2: 2 (1 3)
2: 0: 1: 2: (3 1)
"""
DECOY_OPTS = (['-twopl', '-stab', '-maxsize', '1', '-lsb', '2'], ['-pc', '-gen', '1', '-mincost', '2', '1', '1'], ['-bf'])


def bystander(h):
    """Another Solver object of the same process, on a different instance and option set (MC_Hist: CallOther)."""
    dpath = impl.write_text(DECOY, name='decoy-%d.txt' % os.getpid())
    st, D = impl.construct_solver(['-f', dpath, '-na', '3'] + DECOY_OPTS[h % 3])
    return D if st == 'ok' else None


def call_other(D, h, n):
    r = observe.Recorder(mode='standin', seed=h + 13 * n, keep_sets=False)
    with observe.observing(r, D):
        with impl.quiet():
            D.solve()
    D.get_results()
    D.get_results_long()
    D.get_debug()


def replay_hist(tag, rec):
    impl.ensure_repo()
    cl = solverplay.Clauses(rec)
    o = rec['o']
    calls = rec['calls']
    cl.key = 'calls=%s %s' % (','.join(calls), cl.key)
    path = impl.write_text(o['text'])
    h = int(hashlib.sha1(cl.key.encode()).hexdigest()[:6], 16)
    use_cbc = (h % 8 == 0) and not o.get('bf')
    info = {'hash': rec.get('_h'), 'nsolve': calls.count('solve'), 'cbc': use_cbc, 'others': calls.count('other'),
            'sample': {'argv': solverplay.argv_of(o, '<file>')[2:], 'calls': calls, 'spec_status': rec['status'], 'spec_vals': rec['vals']}}
    try:
        D = bystander(h) if 'other' in calls else None
        st, S = impl.construct_solver(solverplay.argv_of(o, path))
        if not cl.add('C18', 'construct', st == 'ok', '%s %s' % (st, S)):
            return cl.out, info
        nother = 0
        fin = solverplay.mset(rec['Ffin'])
        last_text = {}
        solves = []       # (status, values)
        nsolve = 0
        current_x = None  # the point the back end returned at the last solve of the current run
        for c in calls:
            if c == 'solve':
                nsolve += 1
                last_text = {}
                r = observe.Recorder(mode='cbc' if use_cbc else 'standin', seed=h + 101 * nsolve, keep_sets=False,
                                     chooser=None if use_cbc else (lambda k, n, ns=nsolve: (ns * 7 + k) % n))
                with observe.observing(r, S):
                    try:
                        with impl.quiet():
                            # the documented keyword arguments in different presentations from solve to solve (none / the README's
                            # explicit defaults / a thread count): status, values and texts must not depend on them
                            if nsolve % 3 == 1:
                                S.solve()
                            elif nsolve % 3 == 2:
                                S.solve(msg=False, timeLimit=None, threads=None, write=False)
                            else:
                                S.solve(threads=2)
                    except BaseException as e:  # noqa
                        cl.add('C18', 'solve_no_exception', False, 'solve #%d raised %s: %s' % (nsolve, type(e).__name__, e))
                        return cl.out, info
                current_x = r.events[-1].get('x') if r.events else None
                if not o.get('bf'):
                    vals = [abs(e['opt']) if e.get('opt') is not None else (abs(e['objval']) if e.get('objval') is not None else None)
                            for e in r.events]
                    solves.append((S.model.pulp_status, vals))
                    cl.add('C18', 'resolve_same_status_and_values',
                           solves[-1][0] == solves[0][0] and (solves[-1][1] == solves[0][1] or not rec['crits']),
                           'solve #%d: status %s values %s; first solve: status %s values %s' % (nsolve, solves[-1][0], solves[-1][1], solves[0][0], solves[0][1]))
                    cl.add('C18', 'status_equals_spec', S.model.pulp_status == rec['status'], 'status %s, spec %s' % (S.model.pulp_status, rec['status']))
                    if rec['crits'] and rec['status'] == 'Optimal' and not use_cbc:
                        cl.add('C18', 'values_equal_spec', [v for v in vals] == rec['vals'], 'values %s, spec %s' % (vals, rec['vals']))
                continue
            if c == 'other':
                # a solve and every getter of ANOTHER object: must leave this object's texts alone (judged by the clauses below)
                nother += 1
                if D is not None:
                    try:
                        call_other(D, h, nother)
                    except BaseException as e:  # noqa
                        cl.add('X', 'bystander_runs', False, 'the other object raised %s: %s' % (type(e).__name__, e))
                continue
            fn = {'results': S.get_results, 'short': S.get_results_short, 'long': S.get_results_long, 'debug': S.get_debug}[c]
            try:
                t = fn()
            except BaseException as e:  # noqa
                cl.add('C18', 'getter_returns_text', False, '%s() raised %s: %s' % (c, type(e).__name__, e))
                continue
            cl.add('C18', 'getter_returns_text', isinstance(t, str), '%s() returned %r' % (c, type(t)))
            if c in last_text:
                cl.add('C18', 'same_text_until_next_solve', t == last_text[c], '%s() returned a different text on the second call' % c)
            last_text[c] = t
            if not o.get('bf') and c != 'debug' and isinstance(t, str):
                p = restext.parse_results(t)
                if rec['status'] == 'Optimal':
                    pm = p.get('matching')
                    cl.add('C18', 'resolve_valid_matching', pm is not None and tuple(pm) in fin,
                           '%s() after solve #%d prints matching %s, not among the specified optima' % (c, nsolve, pm))
                    # what is shown is the outcome of the MOST RECENT solve, not of an earlier one
                    if current_x is not None and pm is not None:
                        cl.add('C18', 'getter_shows_current_solve', list(pm) == list(current_x),
                               '%s() after solve #%d prints matching %s, the back end returned %s at that solve' % (c, nsolve, pm, current_x))
            if c == 'debug' and isinstance(t, str) and not o.get('bf') and rec['status'] == 'Optimal':
                d = restext.parse_debug(t)
                # 0/1 rows must describe a matching among the specified optima
                rows = d['rows'][:rec['inst']['ns']]
                m = []
                for s_i, row in enumerate(rows):
                    ones = [j for j, v in enumerate(row) if v]
                    m.append(rec['inst']['prefs'][s_i][ones[0]] if len(ones) == 1 else (0 if not ones else -1))
                cl.add('C18', 'debug_rows_are_the_matching', tuple(m) in fin, 'get_debug rows %s -> %s not among the specified optima' % (rows, m))
                if current_x is not None:
                    cl.add('C18', 'getter_shows_current_solve', list(m) == list(current_x),
                           'get_debug() after solve #%d shows %s, the back end returned %s at that solve' % (nsolve, m, current_x))
                # growth: with -pc a project is shown closed only if nobody is assigned to it (projects of capacity 0 excepted)
                if o['pc'] and d['closures'] is not None:
                    bad = [j + 1 for j, c in enumerate(d['closures'][:rec['inst']['np']])
                           if c == 1 and rec['inst']['puq'][j] > 0 and any(x == j + 1 for x in m)]
                    cl.add('X', 'debug_closed_projects_are_empty', not bad and len(d['closures']) == rec['inst']['np'],
                           'closure row %s, matching %s: projects %s shown closed although assigned' % (d['closures'], m, bad))
                # growth: the instance block of get_debug is the instance the file denotes
                inst = rec['inst']
                exp_pairs = [[{'s': s_i + 1, 'p': pj, 'rs': inst['ranks'][s_i][k2], 'l': inst['plec'][pj - 1],
                               'rl': (inst['lrank'][inst['plec'][pj - 1] - 1][s_i] if inst['two'] else None)}
                              for k2, pj in enumerate(inst['prefs'][s_i])] for s_i in range(inst['ns'])]
                cl.add('C10', 'debug_instance_block', d['pairs'][:inst['ns']] == exp_pairs,
                       'get_debug instance block %s, file denotes %s' % (d['pairs'][:inst['ns']], exp_pairs))
        # "each always returns the same text": what a getter returns is a function of the solver state and of the
        # getter alone - not of which other getters were called before it.  Reference: a second Solver object taken
        # through the same solves (same stand-in choices) WITHOUT any getter call, on which the getter is the first call.
        if not use_cbc and last_text:
            for c, t in sorted(last_text.items()):
                st2, S2 = impl.construct_solver(solverplay.argv_of(o, path))
                if st2 != 'ok':
                    break
                try:
                    for ns in range(1, nsolve + 1):
                        r2 = observe.Recorder(mode='standin', seed=h + 101 * ns, keep_sets=False,
                                              chooser=(lambda k, n, ns=ns: (ns * 7 + k) % n))
                        with observe.observing(r2, S2):
                            with impl.quiet():
                                S2.solve()
                    ref = {'results': S2.get_results, 'short': S2.get_results_short, 'long': S2.get_results_long, 'debug': S2.get_debug}[c]()
                except BaseException as e:  # noqa
                    cl.add('C18', 'getter_text_independent_of_other_getters', False, 'reference run raised %s: %s' % (type(e).__name__, e))
                    continue
                same = isinstance(t, str) and isinstance(ref, str) and restext.mask_volatile(t) == restext.mask_volatile(ref)
                cl.add('C18', 'getter_text_independent_of_other_getters', same,
                       '%s() at the end of this history returns a text (%d lines) that differs from what %s() returns when it is the '
                       'first getter called after the same solves (%d lines)'
                       % (c, len(str(t).split('\n')), c, len(str(ref).split('\n'))))
        return cl.out, info
    finally:
        os.unlink(path)


def main(tier, seed):
    q = tier == 'quick'
    rep = common.Report('C18', tier, seed)
    pool = engine.Pool()
    C = fm.C
    base = dict(NS=2, NP=2, NL=2, MaxLen=2, TieMode='all', AllowEmpty=False, PQ={(0, 1), (1, 2)}, LQ={(0, 1, 2)},
                LecMapMode='mono', OrderMode='asc')
    lists = [(), (C('maxsize'),), (C('maxsize'), C('lsb')), (C('gen'), C('mincostlsb')), (C('lmb'), C('gre'), C('minsqcost', 1, 1))]
    runs = [
        ('LP histories <=4 calls', fm.fam(CritLists=lists, Sided={'one', 'two'}, Stabs={False, True}, PCs={False, True}, **base), 4, 8000 if q else 150000),
        ('LP histories <=6 calls', fm.wide(CritLists=lists), 6, 3000 if q else 60000),
        ('LP histories 12 calls', fm.fam(CritLists=lists, Sided={'two'}, Stabs={True}, PCs={True}, **base), 12, 500 if q else 10000),
        ('brute-force histories <=5 calls', fm.fam(CritLists=[()], BFs={True}, Sided={'one', 'two'}, PCs={False, True}, **base), 5, 3000 if q else 60000),
    ]
    seen = set()

    def on_result(info):
        rep.evaluations += 1
        if info['nsolve'] >= 2:
            rep.distinct.add(info['hash'])
        rep.sample(info['sample'])
        rep.cov['real_cbc_histories'] = rep.cov.get('real_cbc_histories', 0) + (1 if info['cbc'] else 0)
        rep.cov['histories_with_calls_on_another_object'] = rep.cov.get('histories_with_calls_on_another_object', 0) + (1 if info['others'] else 0)

    def flt(tag, rec):
        hh = hashlib.sha1(repr((sorted(rec['o'].items(), key=str), rec['calls'])).encode()).hexdigest()[:16]
        if hh in seen:
            return False
        seen.add(hh)
        rec['_h'] = hh
        return True
    try:
        for i, (label, consts, maxcalls, sim) in enumerate(runs):
            consts = dict(consts, MaxCalls=maxcalls, Others=True)
            res = engine.tlc_replay(rep, pool, 'MC_Hist', replay_hist, consts=consts, spec='HSpec',
                                    invariants=['ResolveSameValues', 'ExportHist'], properties=['GettersReadOnly'],
                                    label=label, on_result=on_result, export_filter=flt, timeout=3000,
                                    simulate=(max(1, sim // common.NCPU), 60), seed=seed + i)
            rep.notes.append('%s: simulate, %d histories exported, %d states' % (label, res['exports'], res['distinct']))
    finally:
        pool.close()
    rep.assumptions = ['timing lines are stored values and therefore part of the byte-for-byte comparison between two getter calls',
                       'across a re-solve only status, criterion values and validity are compared (the matching may legitimately differ)']
    return rep.finish(exhaustive=False, rule='call histories generated by TLC (MC_Hist.tla) on TLC-built instances and option sets incl. -pc, -stab, '
                                             'load balancing criteria and -bf; non-trivial = history contains at least two solves')
