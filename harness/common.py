"""Shared plumbing: scratch directories, tiers/seeds, clause accounting,
evidence files, known findings, VIOLATION / KNOWN-FINDING lines, exit codes.

Exit codes of a check: 0 held, 1 violation (with a VIOLATION line), 2 machinery
failure (TLC did not run, export unparsable, enumerator limits ...).
"""
import atexit
import hashlib
import json
import os
import shutil
import sys
import tempfile
import time

VERIF = os.path.dirname(os.path.dirname(os.path.abspath(__file__)))
REPO = os.environ.get('VERIF_REPO', '/repo')
SPEC = os.path.join(VERIF, 'spec')
EVID = os.environ.get('VERIF_EVIDENCE_DIR') or os.path.join(VERIF, 'evidence')     # selftests redirect this
REPLAYS = os.environ.get('VERIF_REPLAY_DIR') or os.path.join(VERIF, 'replays')
KNOWN = os.environ.get('VERIF_KNOWN_FINDINGS') or os.path.join(VERIF, 'known_findings.json')     # selftests redirect this
NCPU = int(os.environ.get('VERIF_CPUS', os.cpu_count() or 4))

_scratch = None


def scratch():
    """One private scratch directory per process tree, removed at exit.
    TMPDIR and the JVM temp dir point into it (PuLP and TLC litter)."""
    global _scratch
    if _scratch is None:
        base = os.environ.get('VERIF_SCRATCH_BASE') or tempfile.gettempdir()
        _scratch = tempfile.mkdtemp(prefix='mpverif-', dir=base)
        os.environ['TMPDIR'] = _scratch
        tempfile.tempdir = _scratch
        os.environ['JAVA_TOOL_OPTIONS'] = '-Djava.io.tmpdir=' + _scratch
        pid = os.getpid()

        def _rm(d=_scratch, pid=pid):
            if os.getpid() == pid:
                shutil.rmtree(d, ignore_errors=True)
        atexit.register(_rm)
    return _scratch


def subdir(name):
    d = os.path.join(scratch(), name)
    os.makedirs(d, exist_ok=True)
    return d


def tier_and_seed(argv_tier=None):
    tier = os.environ.get('VERIF_TIER') or argv_tier or 'quick'
    if tier not in ('quick', 'thorough'):
        tier = 'quick'
    try:
        seed = int(os.environ.get('VERIF_SEED', '20261001'))
    except ValueError:
        seed = 20261001
    return tier, seed


class MachineryError(Exception):
    pass


def load_known():
    try:
        with open(KNOWN) as f:
            return json.load(f)
    except FileNotFoundError:
        return {'findings': [], 'fixed': []}


def sig_of(obj):
    return hashlib.sha1(json.dumps(obj, sort_keys=True, default=str).encode()).hexdigest()[:12]


class Report:
    """Collects clause verdicts for ONE property check and writes evidence."""

    def __init__(self, pid, tier, seed, level='model_checking'):
        self.pid, self.tier, self.seed, self.level = pid, tier, seed, level
        self.t0 = time.time()
        self.clauses = {}          # name -> [evaluated, failed]
        self.other = {}            # clauses attributed to other properties (diagnostics)
        self.violations = []       # dicts: clause, key, what, case
        self.known_hits = []
        self.samples = []
        self.cov = {}
        self.notes = []
        self.assumptions = []
        self.states = 0
        self.transitions = 0
        self.traces = 0
        self.distinct = set()
        self.evaluations = 0
        self.tlc_runs = []
        self.known = load_known()
        self.classes = {}
        self._vkeys = set()
        self.owns = set()     # clauses of these properties are re-attributed to this check

    # -- clause accounting -------------------------------------------------
    def clause(self, name, ok, key=None, what='', case=None, own=True):
        """Record one evaluation of clause `name`.  `key` identifies the failing
        input (used for known findings and de-duplication)."""
        tab = self.clauses if own else self.other
        c = tab.setdefault(name, [0, 0])
        c[0] += 1
        if ok:
            return True
        c[1] += 1
        if own:
            self._violation(name, key, what, case)
        return False

    def _violation(self, name, key, what, case):
        key = key if key is not None else sig_of(case)
        for kf in self.known.get('findings', []):
            if kf.get('property') == self.pid and kf.get('clause') == name and kf.get('key') == key:
                if key not in [k['key'] for k in self.known_hits]:
                    self.known_hits.append({'key': key, 'clause': name, 'what': kf.get('what', what)})
                return
        import re
        cls = (name, re.sub(r'\d+', 'N', str(what))[:110])
        ent = self.classes.setdefault(cls, {'count': 0, 'example_key': key, 'example': str(what)[:300]})
        ent['count'] += 1
        if (name, key) in self._vkeys:
            return
        # keep every class visible: at most 40 stored cases per class, 3000 in total
        if ent['count'] <= 40 and len(self.violations) < 3000:
            self._vkeys.add((name, key))
            self.violations.append({'clause': name, 'key': key, 'what': what, 'case': case})

    def merge_results(self, results):
        """results: iterable of (clause, ok, key, what, case, own)"""
        for (name, ok, key, what, case, own) in results:
            if not isinstance(own, bool):
                prop = own
                own = prop == self.pid or prop in self.owns or prop in os.environ.get('VERIF_DEBUG_ALSO_OWN', '').split(',')
                if not own:
                    name = prop + '.' + name
            self.clause(name, ok, key=key, what=what, case=case, own=own)

    def sample(self, s, cap=4):
        if len(self.samples) < cap:
            self.samples.append(s)

    def add_tlc(self, stats):
        self.states += stats.get('distinct', 0)
        self.transitions += stats.get('generated', 0)
        self.tlc_runs.append(stats)

    # -- output --------------------------------------------------------------
    def finish(self, exhaustive=None, rule='', extra=None):
        os.makedirs(EVID, exist_ok=True)
        wall = time.time() - self.t0
        cov = {
            'states': int(self.states),
            'transitions': int(self.transitions),
            'traces_validated_against_impl': int(self.traces),
            'samples': self.samples[:6] or ['(no sample recorded)'],
            'evaluations': int(max(self.evaluations, self.traces, 1)),
            'distinct_nontrivial': int(len(self.distinct)),
            'rule': rule,
            'clauses': {k: {'evaluated': v[0], 'failed': v[1]} for k, v in sorted(self.clauses.items())},
            'diagnostic_clauses_of_other_properties':
                {k: {'evaluated': v[0], 'failed': v[1]} for k, v in sorted(self.other.items())},
            'tlc_runs': self.tlc_runs,
            'notes': self.notes,
        }
        if exhaustive is not None:
            cov['exhaustive'] = bool(exhaustive)
        cov.update(self.cov)
        if extra:
            cov.update(extra)
        # group violations by (clause,key)
        seen, uniq = set(), []
        for v in self.violations:
            k = (v['clause'], v['key'])
            if k not in seen:
                seen.add(k)
                uniq.append(v)
        ev = {
            'property_id': self.pid, 'tier': self.tier, 'seed': int(self.seed),
            'level': self.level, 'coverage': cov,
            'assumptions': self.assumptions,
            'wall_s': round(wall, 2), 'violations': len(uniq),
            'known_findings_hit': self.known_hits,
            'violation_classes': [{'clause': k[0], 'what': k[1], 'count': v['count'], 'example_key': str(v['example_key'])[:400]}
                                  for k, v in sorted(self.classes.items(), key=lambda kv: -kv[1]['count'])][:60],
        }
        with open(os.path.join(EVID, self.pid + '.json'), 'w') as f:
            json.dump(ev, f, indent=1, default=str)
        for k in self.known_hits:
            print('KNOWN-FINDING: property=%s clause=%s key=%s %s' % (self.pid, k['clause'], k['key'], k['what']))
        if os.environ.get('VERIF_DUMP'):
            with open(os.environ['VERIF_DUMP'], 'w') as f:
                for v in uniq:
                    f.write(json.dumps({'clause': v['clause'], 'key': v['key'], 'what': v['what']}) + '\n')
        if uniq:
            os.makedirs(REPLAYS, exist_ok=True)
            for v in uniq[:10]:
                path = os.path.join(REPLAYS, '%s-%s-%s.json' % (self.pid, v['clause'], sig_of(v['key'])))
                with open(path, 'w') as f:
                    json.dump({'property': self.pid, 'clause': v['clause'], 'key': v['key'],
                               'what': v['what'], 'case': v['case']}, f, indent=1, default=str)
                print('VIOLATION property=%s replay=%s' % (self.pid, path))
                print('  clause=%s %s' % (v['clause'], str(v['what'])[:300]))
            if len(uniq) > 10:
                print('  ... and %d more distinct violations' % (len(uniq) - 10))
            for k, v in sorted(self.classes.items(), key=lambda kv: -kv[1]['count'])[:25]:
                print('  class x%d: %s | %s' % (v['count'], k[0], k[1]))
            print('%s: %d distinct violation(s); clauses %s' % (
                self.pid, len(uniq), {k: v for k, v in self.clauses.items() if v[1]}))
            return 1
        tot = sum(v[0] for v in self.clauses.values())
        if tot == 0:
            # vacuity guard: nothing this property speaks about was ever observed (e.g. every generator run failed
            # before a file existed); that is neither "held" nor a violation of THIS property
            print('MACHINERY-FAILURE property=%s vacuous run: no clause of this property was evaluated '
                  '(the implementation never reached the point the property speaks about; see the diagnostic clauses in the evidence file)' % self.pid)
            return 2
        print('%s: held on everything explored (%d clause evaluations, %d TLC states, %d behaviours bound to the implementation, %.1fs)'
              % (self.pid, tot, self.states, self.traces, wall))
        return 0


def machinery_exit(pid, msg):
    print('MACHINERY-FAILURE property=%s %s' % (pid, msg))
    sys.exit(2)
