"""M2 engine: stream behaviours exported by TLC into a process pool that replays
each one into the real code and returns clause verdicts."""
import multiprocessing as mp
import traceback

from . import common, tlc


def _init():
    from . import impl
    impl.ensure_repo()


def _run_chunk(args):
    fn, chunk = args
    out = []
    for tag, rec in chunk:
        try:
            out.append(('ok', fn(tag, rec)))
        except common.MachineryError as e:
            out.append(('mach', str(e)))
        except Exception:
            out.append(('mach', traceback.format_exc()[-1500:]))
    return out


class Pool:
    def __init__(self, procs=None):
        common.scratch()
        self.pool = mp.get_context('fork').Pool(procs or common.NCPU, initializer=_init)
        self.pending = []
        self.buf = []
        self.fn = None

    def submit(self, fn, tag, rec, chunk=64):
        if self.fn is not None and fn is not self.fn:
            self.flush()
        self.fn = fn
        self.buf.append((tag, rec))
        if len(self.buf) >= chunk:
            self.flush()

    def flush(self):
        if self.buf:
            self.pending.append(self.pool.apply_async(_run_chunk, ((self.fn, self.buf),)))
            self.buf = []

    def drain(self, report, on_result=None):
        """Merge all outstanding results into the report."""
        self.flush()
        for p in self.pending:
            for kind, val in p.get():
                if kind == 'mach':
                    self.close()
                    common.machinery_exit(report.pid, 'replay worker failed:\n' + val)
                results, info = val
                report.traces += 1
                report.merge_results(results)
                if on_result:
                    on_result(info)
        self.pending = []

    def map(self, fn, items, chunk=16):
        """Plain parallel map with machinery-error propagation (items: (tag, rec))."""
        jobs = [self.pool.apply_async(_run_chunk, ((fn, items[i:i + chunk]),)) for i in range(0, len(items), chunk)]
        out = []
        for j in jobs:
            out.extend(j.get())
        return out

    def close(self):
        try:
            self.pool.terminate()
            self.pool.join()
        except Exception:
            pass


def tlc_replay(report, pool, module, worker_fn, consts=None, invariants=(), label=None,
               on_result=None, export_filter=None, allow_empty=False, **kw):
    """Run TLC on `module`; every exported behaviour is replayed by worker_fn
    (in the pool).  worker_fn(tag, rec) -> (results, info)."""
    def on_export(tag, rec):
        if export_filter and not export_filter(tag, rec):
            return
        pool.submit(worker_fn, tag, rec)
    res = tlc.run(module, consts=consts, invariants=invariants, on_export=on_export, label=label, **kw)
    tlc.require_ok(res, report.pid)
    if not res['exports'] and not allow_empty:
        common.machinery_exit(report.pid, 'vacuous TLC run %s: no behaviour was exported (simulation depth too small?)' % (label or module))
    report.add_tlc(tlc.stats_of(res))
    pool.drain(report, on_result)
    return res
