"""Bounded families (constants of MC_Solver.tla) and criteria lists.

Every family is a dict of TLA+ constants; BFS runs enumerate it completely,
`-simulate` runs sample it (the build actions choose one component per step).
"""
import itertools

from . import tlc


def C(c, *x):
    return {'c': c, 'x': list(x)}


PQ_SMALL = {(0, 1), (1, 1), (0, 2), (1, 2)}
PQ_RICH = {(0, 0), (0, 1), (1, 1), (0, 2), (1, 2), (2, 2), (0, 3), (2, 3)}
LQ_SMALL = {(0, 1, 1), (0, 1, 2), (1, 1, 2), (0, 2, 2)}
LQ_RICH = {(0, 0, 0), (0, 0, 1), (0, 1, 1), (1, 1, 1), (0, 1, 2), (1, 1, 2), (0, 2, 2), (1, 2, 2), (2, 2, 2),
           (0, 3, 3), (0, 1, 3), (2, 2, 3)}

# criterion variants with admissible argument vectors
VARIANTS = {
    'maxsize': [C('maxsize')],
    'minsize': [C('minsize')],
    'gen': [C('gen'), C('gen', 1), C('gen', 2), C('gen', 3), C('gen', 4)],
    'gre': [C('gre'), C('gre', 1), C('gre', 2), C('gre', 3), C('gre', 7), C('gre', 12)],
    'mincost': [C('mincost'), C('mincost', 1, 1), C('mincost', 0, 1), C('mincost', 2, 1), C('mincost', 1, 0), C('mincost', 10, 1), C('mincost', 3), C('mincost', 0, 0)],
    'minsqcost': [C('minsqcost'), C('minsqcost', 1, 1), C('minsqcost', 0, 1), C('minsqcost', 2)],
    'lmb': [C('lmb')],
    'lsb': [C('lsb')],
    'mincostlsb': [C('mincostlsb'), C('mincostlsb', 1, 2), C('mincostlsb', 0, 1), C('mincostlsb', 2, 0), C('mincostlsb', 1, 11), C('mincostlsb', 3), C('mincostlsb', 0, 0)],
}
NAMES = list(VARIANTS)


def singles(all_variants=True):
    return [(v,) for n in NAMES for v in (VARIANTS[n] if all_variants else VARIANTS[n][:1])]


def pairs(variant=0):
    out = []
    for a, b in itertools.permutations(NAMES, 2):
        va = VARIANTS[a][min(variant, len(VARIANTS[a]) - 1)]
        vb = VARIANTS[b][min(variant, len(VARIANTS[b]) - 1)]
        out.append((va, vb))
    return out


def triples():
    return [tuple(VARIANTS[n][0] for n in t) for t in itertools.permutations(NAMES, 3)]


def sample_lists(rng, n, maxlen=9, minlen=1):
    """n random ordered criteria lists with random admissible variants"""
    out = []
    for _ in range(n):
        k = rng.randint(minlen, maxlen)
        names = rng.sample(NAMES, k)
        out.append(tuple(rng.choice(VARIANTS[nm]) for nm in names))
    return out


ALL_VARIANTS = [v for n in VARIANTS for v in VARIANTS[n]]
DEFAULT_VARIANTS = [VARIANTS[n][0] for n in VARIANTS]


def build(lo, hi, variants=None):
    """constants selecting the criterion-by-criterion build mode"""
    return dict(CritMode='build', CritVariants=variants or ALL_VARIANTS, MinCrits=lo, MaxCrits=hi, CritLists=[()])


def fam(**over):
    f = dict(NA=3, NS=2, NP=2, NL=2, MaxLen=2, TieMode='all', AllowEmpty=True,
             PQ=PQ_SMALL, LQ=LQ_SMALL, LecMapMode='mono', Sided={'one', 'two'}, OrderMode='all',
             PCs={False, True}, Stabs={False}, BFs={False}, CritLists=[()],
             CritMode='set', CritVariants=[], MinCrits=0, MaxCrits=0,
             Press={'id'}, Styles={'plain'}, InfoBlocks={False},
             CheckIP=False, CheckText=False, ReportCap=1, Detail=True, ExportMode='run', Shifts={(0, 0, 0)})
    f.update(over)
    f['CritLists'] = tlc.tla_set(f['CritLists'])
    f['CritVariants'] = tlc.tla_set(f['CritVariants'])
    f['PQ'] = tlc.tla_set(f['PQ'])
    f['LQ'] = tlc.tla_set(f['LQ'])
    f['Shifts'] = tlc.tla_set(f['Shifts'])
    return f


LP_INVARIANTS = ['FamilyWellFormed', 'OptionsRefine', 'ReportedValid', 'StatusIffFeasible', 'LexOptimal',
                 'FrozenHolds', 'NoMatchingUnlessAllProven', 'Export']
IP_INVARIANTS = ['IPRefines', 'BoundsAdmit', 'PosLosesNothing']
TEXT_INVARIANTS = ['ReadRender']


def run_spec(label, consts, simulate=None, invariants=None, depth=40, coverage=None):
    inv = list(invariants or LP_INVARIANTS)
    if consts.get('CheckIP'):
        inv = IP_INVARIANTS + inv
    if consts.get('CheckText'):
        inv = TEXT_INVARIANTS + inv
    return dict(label=label, consts=consts, simulate=(simulate, depth) if simulate else None, invariants=inv, coverage=coverage,
                constraint='StopAfterReady' if consts.get('ExportMode') in ('checker', 'load') else None)


# ---------------------------------------------------------------------------
# named families
def s2core(**over):
    d = dict(NA=3, NS=2, NP=2, NL=2, PQ={(0, 1), (1, 2), (0, 2)}, LQ={(0, 1, 1), (1, 1, 2), (0, 2, 2)},
             OrderMode='asc', Stabs={False, True})
    d.update(over)
    return fam(**d)


def zerocap(**over):
    d = dict(NA=3, NS=2, NP=2, NL=1, PQ={(0, 0), (0, 1), (1, 1)}, LQ={(0, 0, 0), (0, 1, 1), (0, 1, 2)},
             OrderMode='all', Stabs={False, True})
    d.update(over)
    return fam(**d)


def hr2(**over):
    d = dict(NA=2, NS=2, NP=2, NL=2, PQ={(0, 0), (0, 1), (1, 1), (0, 2), (1, 2)}, Sided={'one', 'two', 'ignored'},
             OrderMode='all', Stabs={False, True})
    d.update(over)
    return fam(**d)


def shared3(**over):
    d = dict(NA=3, NS=3, NP=2, NL=1, PQ={(0, 1), (0, 2), (1, 2)}, LQ={(0, 1, 2), (0, 2, 2), (1, 2, 3)},
             OrderMode='asc', Stabs={False, True}, AllowEmpty=False)
    d.update(over)
    return fam(**d)


def wide(ns=3, np_=3, nl=2, na=3, **over):
    d = dict(NA=na, NS=ns, NP=np_, NL=nl, MaxLen=3, PQ=PQ_RICH, LQ=LQ_RICH, LecMapMode='all',
             Sided={'one', 'two', 'ignored'} if na == 2 else {'one', 'two'}, OrderMode='all', Stabs={False, True})
    d.update(over)
    return fam(**d)


def twodigit_projects(**over):
    """ten or more projects: two-digit ids (a project id containing the digit 0, ids >= 10)"""
    d = dict(NA=3, NS=2, NP=11, NL=2, MaxLen=2, TieMode='none', AllowEmpty=True, PQ={(0, 1)}, LQ={(0, 1, 2)},
             LecMapMode='mono', Sided={'one', 'two'}, OrderMode='asc', Stabs={False}, PCs={False})
    d.update(over)
    return fam(**d)


def twodigit_students(**over):
    """ten or more students (two-digit student ids), one or two projects"""
    d = dict(NA=3, NS=10, NP=2, NL=1, MaxLen=1, TieMode='none', AllowEmpty=True, PQ={(0, 2), (0, 10)}, LQ={(0, 3, 10)},
             LecMapMode='mono', Sided={'one', 'two'}, OrderMode='asc', Stabs={False}, PCs={False})
    d.update(over)
    return fam(**d)


def big(ns=5, np_=4, nl=3, na=3, **over):
    """larger instances, sampled only; the quadratic LexOptimal invariant is left to the smaller families"""
    d = dict(NA=na, NS=ns, NP=np_, NL=nl, MaxLen=4, PQ={(0, 1), (0, 2), (1, 2), (0, 4), (2, 4), (0, 5)},
             LQ={(0, 1, 2), (0, 2, 4), (1, 3, 5), (0, 0, 3), (2, 4, 4), (0, 5, 5)}, LecMapMode='all',
             Sided={'one', 'two', 'ignored'} if na == 2 else {'one', 'two'}, OrderMode='all', Stabs={False, True}, AllowEmpty=False)
    d.update(over)
    return fam(**d)


BIG_INVARIANTS = ['FamilyWellFormed', 'ReportedValid', 'StatusIffFeasible', 'NoMatchingUnlessAllProven', 'Export']


def four_short(**over):
    """four students with short lists (few matchings) but second-side lists of four: tie structures that need >= 4 entries"""
    d = dict(NA=3, NS=4, NP=2, NL=1, MaxLen=2, TieMode='all', AllowEmpty=False, PQ={(0, 1), (0, 2), (1, 3), (0, 4)},
             LQ={(0, 2, 3), (0, 3, 4), (1, 4, 4)}, LecMapMode='mono', Sided={'two'}, OrderMode='all', Stabs={True}, PCs={False, True})
    d.update(over)
    return fam(**d)


def four_long(**over):
    """one or two students with lists of four projects, every tie structure"""
    d = dict(NA=3, NS=2, NP=4, NL=2, MaxLen=4, TieMode='all', AllowEmpty=False, PQ={(0, 1), (0, 2)}, LQ={(0, 1, 2), (0, 2, 2)},
             LecMapMode='mono', Sided={'one', 'two'}, OrderMode='asc', Stabs={False, True})
    d.update(over)
    return fam(**d)


def lec3(**over):
    """three lecturers for two students and three projects: lecturers without project, one lecturer for everything"""
    d = dict(NA=3, NS=2, NP=3, NL=3, MaxLen=3, TieMode='all', AllowEmpty=True, PQ={(0, 1), (1, 1), (0, 2)},
             LQ={(0, 0, 0), (0, 0, 1), (0, 1, 1), (1, 1, 2), (0, 2, 2)}, LecMapMode='all', Sided={'one', 'two'}, OrderMode='all',
             Stabs={False, True})
    d.update(over)
    return fam(**d)


def twodigit_lecturers(**over):
    """eleven lecturers / eleven projects (two-digit lecturer numbers), quotas of 10 and more"""
    d = dict(NA=3, NS=2, NP=11, NL=11, MaxLen=2, TieMode='all', AllowEmpty=True, PQ={(0, 1), (0, 10), (10, 12)},
             LQ={(0, 1, 2), (0, 10, 11), (10, 10, 12)}, LecMapMode='mono', Sided={'one', 'two'}, OrderMode='all', Stabs={False}, PCs={False})
    d.update(over)
    return fam(**d)


def five_long(**over):
    """two students with strict lists of up to five projects (ranks up to 5)"""
    d = dict(NA=3, NS=2, NP=5, NL=2, MaxLen=5, TieMode='none', AllowEmpty=False, PQ={(0, 1), (1, 1), (0, 2)}, LQ={(0, 2, 3), (1, 2, 2)},
             LecMapMode='mono', Sided={'one', 'two'}, OrderMode='asc', Stabs={False})
    d.update(over)
    return fam(**d)


def three_by_four(**over):
    """three students, four projects, lists of up to four (rank 4), every tie structure"""
    d = dict(NA=3, NS=3, NP=4, NL=2, MaxLen=4, TieMode='all', AllowEmpty=False, PQ={(0, 1), (1, 1), (0, 2), (0, 3)}, LQ={(0, 2, 3), (1, 2, 2), (0, 3, 3)},
             LecMapMode='mono', Sided={'one', 'two'}, OrderMode='asc', Stabs={False})
    d.update(over)
    return fam(**d)


def five_students(**over):
    """five students with lists of at most two out of three projects"""
    d = dict(NA=3, NS=5, NP=3, NL=1, MaxLen=3, TieMode='none', AllowEmpty=False, PQ={(0, 2), (0, 5), (5, 5), (1, 3)}, LQ={(0, 3, 5), (2, 5, 5)},
             LecMapMode='mono', Sided={'one', 'two'}, OrderMode='asc', Stabs={False})
    d.update(over)
    return fam(**d)


def unordered_numbers(**over):
    """C10 only (loaded, never solved): files whose numbers are not ordered - target above the upper quota or below
    the lower one, lower quota above the upper one - are read as written"""
    d = dict(NA=3, NS=2, NP=2, NL=2, MaxLen=2, TieMode='none', AllowEmpty=True, PQ={(0, 1), (2, 1), (3, 0)},
             LQ={(0, 4, 2), (2, 1, 3), (3, 0, 1), (0, 2, 2), (5, 5, 0)}, LecMapMode='all', Sided={'one', 'two'}, OrderMode='asc',
             Stabs={False}, PCs={False})
    d.update(over)
    return fam(**d)


def both_twodigit(**over):
    """twelve students AND eleven lecturers (two-digit numbers on both sides), two-sided, strict second-side order"""
    d = dict(NA=3, NS=12, NP=11, NL=11, MaxLen=2, TieMode='none', AllowEmpty=True, PQ={(0, 2)}, LQ={(0, 2, 4)},
             LecMapMode='mono', Sided={'two'}, OrderMode='asc', Stabs={False}, PCs={False})
    d.update(over)
    return fam(**d)


SHIFTS = {(12, 12, 12), (300, 0, 0), (0, 300, 0), (0, 0, 300), (120, 120, 120)}
# crowd embedding: 33 / 40 extra students on lecturer 1's list (their only choice has upper quota 0)
CROWDS = {(0, -33, 0), (0, -40, 0)}
# split embedding: the dummies come after the first built student (active students 1, 257, 258 / 1, 1002, ...)
SPLITS = {(-255, 0, 0), (-1000, 0, 0), (-10, 0, 0)}


def shifted(core=None, **over):
    """a small core instance embedded among many dummy agents: active agent numbers of two and three digits"""
    d = dict(NA=3, NS=2, NP=2, NL=2, PQ={(0, 1), (1, 2), (0, 2)}, LQ={(0, 1, 1), (1, 1, 2), (0, 2, 2)}, OrderMode='all',
             Stabs={False, True}, Shifts=SHIFTS)
    d.update(over)
    return fam(**d)
