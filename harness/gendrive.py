"""Driving the real generator and validating its traces with Trace_Gen.tla."""
import json
import os
import random
import shutil

from . import common, impl, tlc

FLAGS = {'n1': '-n1', 'n2': '-n2', 'n3': '-n3', 'pmin': '-pmin', 'pmax': '-pmax', 't1': '-t1', 't2': '-t2',
         'lq': '-lq', 'uq': '-uq', 'llq': '-llq', 'lt': '-lt', 'luq': '-luq', 'skew': '-skew', 'twopl': '-twopl'}


def argv_of(rec, outdir):
    a = ['-numinst', str(rec['numinst']), '-o', outdir, '-mp', rec['mp']]
    for o in sorted(rec['given']):
        v = rec['v'][o]
        if o == 'twopl':
            a.append('-twopl')
        elif o in ('t1', 't2'):
            a += [FLAGS[o], repr(v / 4.0)]
        elif o == 'skew':
            a += [FLAGS[o], repr(v / 2.0)]
        else:
            a += [FLAGS[o], str(v)]
    return a


_n = [0]


def run_generator(rec, seed):
    """Runs the real Generator in a fresh scratch location whose output path
    does not exist.  Returns dict(outcome, listing, files, existed_after)."""
    impl.ensure_repo()
    import numpy as np
    from matchingproblems.generator.generator import Generator
    _n[0] += 1
    base = os.path.join(common.subdir('gen-%d' % os.getpid()), 'r%d' % _n[0])
    os.makedirs(base)
    out = os.path.join(base, 'out', 'instances')       # two missing levels
    random.seed(seed)
    np.random.seed(seed % (2 ** 32))
    res = {'argv': argv_of(rec, '<out>')}
    try:
        with impl.quiet():
            Generator(argv_of(rec, out))
        res['outcome'] = 'ok'
    except SystemExit as e:
        res['outcome'] = 'exit%s' % e.code
    except BaseException as e:  # noqa
        res['outcome'] = 'exc:%s: %s' % (type(e).__name__, e)
    res['exists'] = os.path.exists(os.path.join(base, 'out'))
    res['listing'], res['files'] = [], []
    if os.path.isdir(out):
        names = sorted(os.listdir(out), key=lambda n: (len(n), n))
        res['listing'] = names
        for nme in names:
            with open(os.path.join(out, nme), 'rb') as f:
                res['files'].append(list(f.read()))
    shutil.rmtree(base, ignore_errors=True)
    return res


def listing_numbers(names):
    out = []
    for n in names:
        if n.endswith('.txt') and n[:-4].isdigit() and str(int(n[:-4])) == n[:-4]:
            out.append(int(n[:-4]))
        else:
            out.append(-1)
    return out


def validate_traces(traces, pid, label='Trace_Gen'):
    """traces: list of dict(args, listing(numbers), files).  Returns verdicts
    in order: list of dict(fails=[...], lens=[...]); TLC statistics."""
    if not traces:
        return [], None
    d = common.subdir('traces-%d' % os.getpid())
    path = os.path.join(d, 'gen-%d.json' % random.getrandbits(40))
    with open(path, 'w') as f:
        json.dump(traces, f)
    verdicts = {}

    def on_export(tag, rec):
        verdicts[rec['tid']] = rec
    res = tlc.run('Trace_Gen', spec='TSpec', invariants=['Verdict'], tags=('VERDICT',), on_export=on_export,
                  env={'TRACE_FILE': path}, label=label, timeout=3000)
    os.unlink(path)
    tlc.require_ok(res, pid)
    if len(verdicts) != len(traces):
        common.machinery_exit(pid, 'Trace_Gen returned %d verdicts for %d traces' % (len(verdicts), len(traces)))
    return [verdicts[i + 1] for i in range(len(traces))], res
