"""Driving the real generator and validating its traces with Trace_Gen.tla."""
import json
import os
import random
import shutil

from . import common, impl, tlc

FLAGS = {'n1': '-n1', 'n2': '-n2', 'n3': '-n3', 'pmin': '-pmin', 'pmax': '-pmax', 't1': '-t1', 't2': '-t2',
         'lq': '-lq', 'uq': '-uq', 'llq': '-llq', 'lt': '-lt', 'luq': '-luq', 'skew': '-skew', 'twopl': '-twopl'}


FLAGS_ALL = dict(FLAGS, numinst='-numinst', o='-o', mp='-mp')


def argv_of(rec, outdir):
    nm = rec.get('names') or FLAGS_ALL        # the spelling of every option as exported by the specification
    a = [nm['numinst'], str(rec['numinst']), nm['o'], outdir, nm['mp'], rec['mp']]
    # second presentation (tied to the long spelling): whole-valued probabilities / skews written without a decimal
    # point, as the README's own examples do ("-skew 5")

    def fl(x):
        return str(int(x)) if rec.get('spell') == 'long' and float(x).is_integer() else repr(x)
    for o in sorted(rec['given']):
        v = rec['v'][o]
        if o == 'twopl':
            a.append(nm[o])
        elif o in ('t1', 't2'):
            a += [nm[o], fl(v / 20.0 + (rec.get('eps') or {}).get(o, 0) * 2.0 ** -40)]
        elif o == 'skew':
            a += [nm[o], fl(v / 2.0)]
        else:
            a += [nm[o], str(v)]
    return a


_n = [0]
# accepted argument sets used as the EARLIER run of a history (larger than most judged runs, so that their files are longer)
DECOYS = [('spa', '-n1 6 -n2 8 -n3 4 -pmin 3 -pmax 5 -t1 1.0 -t2 1.0 -skew 7 -lq 4 -uq 19 -llq 2 -lt 9 -luq 21 -twopl'),
          ('hr', '-n1 7 -n2 4 -pmin 2 -pmax 4 -t1 1.0 -t2 0.5 -skew 9 -lq 2 -uq 11 -twopl'),
          ('ha', '-n1 9 -n2 5 -pmin 3 -pmax 5 -t1 1.0 -skew 11 -lq 1 -uq 13'),
          ('sm', '-n1 6 -pmin 4 -pmax 6 -t1 1.0 -t2 1.0 -skew 5 -twopl')]


def run_generator(rec, seed):
    """Runs the real Generator in a fresh scratch location whose output path
    does not exist.  Returns dict(outcome, listing, files, existed_after)."""
    impl.ensure_repo()
    import numpy as np
    from matchingproblems.generator.generator import Generator
    _n[0] += 1
    base = os.path.join(common.subdir('gen-%d' % os.getpid()), 'r%d' % _n[0])
    os.makedirs(base)
    out = os.path.join(base, 'out', 'instances')       # two missing levels
    if seed % 5 == 0:
        # HISTORY: another accepted generator run (different type, counts, ties, skew, quota totals) precedes the judged one in the
        # same process and - when the judged vector is a legal one - in the SAME output directory, with the same number of
        # instances and (mostly) longer files.  Runs share nothing in the specification (MPGen: every run starts from ParseArgs;
        # FinishFile makes k.txt BE the rendered text, it does not edit what was there), so the judged run's files must be what
        # they would be without the earlier one.  Aimed at caches keyed by too little and at files overwritten in place.
        decoy = DECOYS[(seed // 5) % len(DECOYS)]
        if decoy[0] == rec.get('mp'):
            decoy = DECOYS[(seed // 5 + 1) % len(DECOYS)]
        same = bool(rec.get('accept')) and isinstance(rec.get('numinst'), int) and 1 <= rec['numinst'] <= 12
        target = out if same else os.path.join(base, 'decoy')
        try:
            with impl.quiet():
                Generator(('-numinst %d -o %s -mp %s' % (rec['numinst'] if same else 2, target, decoy[0])).split() + decoy[1].split())
        except BaseException:  # noqa
            pass
        if not same:
            shutil.rmtree(target, ignore_errors=True)
        elif not (os.path.isdir(out) and sorted(os.listdir(out)) == sorted('%d.txt' % i for i in range(rec['numinst']))):
            shutil.rmtree(os.path.join(base, 'out'), ignore_errors=True)       # the earlier run did not do what it should: fresh location
    random.seed(seed)
    np.random.seed(seed % (2 ** 32))
    res = {'argv': argv_of(rec, '<out>')}
    try:
        with impl.quiet():
            Generator(argv_of(rec, out))
        res['outcome'] = 'ok'
    except SystemExit as e:
        res['outcome'] = 'exit%s' % e.code
    except BaseException as e:  # noqa
        res['outcome'] = 'exc:%s: %s' % (type(e).__name__, e)
    res['exists'] = os.path.exists(os.path.join(base, 'out'))
    res['listing'], res['files'] = [], []
    if os.path.isdir(out):
        names = sorted(os.listdir(out), key=lambda n: (len(n), n))
        res['listing'] = names
        for nme in names:
            with open(os.path.join(out, nme), 'rb') as f:
                res['files'].append(list(f.read()))
    if seed % 5 == 0 and res['outcome'] == 'ok':
        # reference: the same vector with the same seeds in a fresh location and without an earlier run, twice; when the two
        # reference runs agree (the generator is deterministic under the harness's seeding) the judged run must agree with them
        refs = []
        for j in (1, 2):
            rout = os.path.join(base, 'ref%d' % j, 'instances')
            random.seed(seed)
            np.random.seed(seed % (2 ** 32))
            try:
                with impl.quiet():
                    Generator(argv_of(rec, rout))
                names = sorted(os.listdir(rout), key=lambda n: (len(n), n))
                refs.append((names, [list(open(os.path.join(rout, n), 'rb').read()) for n in names]))
            except BaseException:  # noqa
                refs.append(None)
        if refs[0] is not None and refs[0] == refs[1]:
            same_out = (res['listing'], res['files']) == refs[0]
            res['history'] = {'agrees': same_out}
            if not same_out:
                k = next((i for i, (a, b) in enumerate(zip(res['files'], refs[0][1])) if a != b), None)
                res['history']['what'] = ('listing %s, alone %s' % (res['listing'], refs[0][0]) if k is None else
                                          'file %s after an earlier run: %r; the same run alone: %r'
                                          % (res['listing'][k], bytes(res['files'][k]).decode('latin-1'), bytes(refs[0][1][k]).decode('latin-1')))
    shutil.rmtree(base, ignore_errors=True)
    return res


def parse_block(codes):
    """lexical: the 'key: value' lines after the blank line -> [[key, [num, den]], ...]"""
    from fractions import Fraction
    text = bytes(codes).decode('latin-1')
    head, sep, tail = text.partition('\n\n')
    out = []
    for line in tail.split('\n')[1:]:
        if ':' not in line:
            continue
        k, _, v = line.partition(':')
        try:
            f = Fraction(v.strip())
            out.append([k.strip(), [f.numerator, f.denominator]])
        except (ValueError, ZeroDivisionError):
            out.append([k.strip(), [-1, 1]])
    return out


def listing_numbers(names):
    out = []
    for n in names:
        if n.endswith('.txt') and n[:-4].isdigit() and str(int(n[:-4])) == n[:-4]:
            out.append(int(n[:-4]))
        else:
            out.append(-1)
    return out


def _validate_chunk(args):
    pid, label, offset, traces = args
    d = common.subdir('traces-%d' % os.getpid())
    path = os.path.join(d, 'gen-%d.json' % random.getrandbits(40))
    with open(path, 'w') as f:
        json.dump(traces, f)
    verdicts = {}

    def on_export(tag, rec):
        verdicts[rec['tid']] = rec
    res = tlc.run('Trace_Gen', spec='TSpec', invariants=['Verdict'], tags=('VERDICT',), on_export=on_export,
                  env={'TRACE_FILE': path}, label=label, timeout=3000, workers=int(os.environ.get('TW', '4')))
    os.unlink(path)
    res.pop('lines', None)
    return offset, verdicts, dict(res)


def validate_traces(traces, pid, label='Trace_Gen', pool=None):
    """traces: list of dict(args, listing(numbers), files).  Returns verdicts in
    order (dict(fails=[...], lens=[...])) and TLC statistics.  The batch is split
    over several TLC processes (trace validation is embarrassingly parallel)."""
    if not traces:
        return [], None
    import concurrent.futures as cf
    nchunks = max(1, min(int(os.environ.get('TC', '4')), len(traces) // 50 + 1))
    size = -(-len(traces) // nchunks)
    jobs = [(pid, label, i, traces[i:i + size]) for i in range(0, len(traces), size)]
    out = [None] * len(traces)
    total = None
    with cf.ThreadPoolExecutor(max_workers=nchunks) as ex:
        for offset, verdicts, res in ex.map(_validate_chunk, jobs):
            tlc.require_ok(tlc.TLCResult(res), pid)
            n = len([j for j in jobs if j[2] == offset][0][3])
            if len(verdicts) != n:
                common.machinery_exit(pid, 'Trace_Gen returned %d verdicts for %d traces' % (len(verdicts), n))
            for i in range(n):
                out[offset + i] = verdicts[i + 1]
            if total is None:
                total = tlc.TLCResult(res)
            else:
                for k in ('generated', 'distinct', 'exports'):
                    total[k] += res[k]
                total['wall_s'] = max(total['wall_s'], res['wall_s'])
    total['label'] = '%s (%d traces in %d TLC processes)' % (label, len(traces), len(jobs))
    return out, total
