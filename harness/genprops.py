"""C08, C12, C15: the generator.

M1  MC_Gen.tla / MPGen.tla: the parser mechanism (tables, defaults, bound checks
    with explicit "no value") refines the declarative acceptance rule on every
    legal vector and every single-fault perturbation; with Generate = TRUE the
    generator machine runs through EVERY possible random draw for tiny counts
    and everything written is well-formed (GenWellFormed) and reads back as the
    same instance (GenRoundTrip).
M2  every exported argument vector is replayed into the real Generator in a
    fresh location (C15 clauses).
M3  the files written by accepted runs (many seeds) are traces validated by
    Trace_Gen.tla, which reads the random draws back from the text with the
    specification's own reader and evaluates the guards of the generator
    actions clause by clause (C08, C12 clauses).
"""
import hashlib

from . import common, engine, gendrive, tlc

C12_CLAUSES = {'second_side_exactly_rankers'}
M1_INV = ['ParserOK', 'FamilySound', 'RejectBeforeWrite', 'AcceptWritesAll', 'GenWellFormed', 'GenRoundTrip']


def key_of(rec):
    return '-mp %s -numinst %s %s [%s]' % (rec['mp'], rec['numinst'],
                                           ' '.join('%s=%s%s' % (o, rec['v'][o], {1: '+hair', -1: '-hair'}.get((rec.get('eps') or {}).get(o, 0), ''))
                                                    for o in sorted(rec['given'])), '/'.join(rec['pert'])) + (' long option names' if rec.get('spell') == 'long' else '')


def replay_args(tag, rec):
    """C15 clauses for one argument vector; accepted runs also return their trace."""
    out = []
    key = key_of(rec)
    seeds = rec.get('_seeds', [1])
    traces = []

    def cl(prop, name, ok, what=''):
        out.append((name, bool(ok), key + ' | ' + name, what, None if ok else {'args': rec, 'observed': what}, prop))
    for sd in seeds:
        r = gendrive.run_generator(rec, sd)
        if rec['accept']:
            exp = ['%d.txt' % i for i in range(rec['numinst'])]
            cl('C15', 'accepted_no_exception_all_files', r['outcome'] == 'ok' and r['listing'] == exp,
               'Generator(%s) -> %s, files %s' % (' '.join(r['argv']), r['outcome'], r['listing']))
            # the same observation is a statement of C08 too ("each accepted run writes exactly the requested number of files")
            cl('C08', 'accepted_run_writes_requested_files', r['outcome'] == 'ok' and r['listing'] == exp,
               'Generator(%s) -> %s, files %s' % (' '.join(r['argv']), r['outcome'], r['listing']))
            if 'history' in r:
                # MPGen: runs share nothing and FinishFile makes k.txt BE the rendered text: the files of a run do not depend on an
                # earlier run of the same process or on what the output directory already contained
                cl('C08', 'files_independent_of_earlier_runs', r['history']['agrees'],
                   'Generator(%s): %s' % (' '.join(r['argv']), r['history'].get('what', '')))
            if r['outcome'] == 'ok':
                traces.append({'args': {'mp': rec['mp'], 'numinst': rec['numinst'], 'given': sorted(rec['given']), 'v': rec['v']},
                               'listing': gendrive.listing_numbers(r['listing']), 'files': r['files'], 'seed': sd, 'key': key})
        else:
            cl('C15', 'rejected_is_usage_error', r['outcome'] == 'exit2',
               'Generator(%s) -> %s (expected a usage error, SystemExit(2))' % (' '.join(r['argv']), r['outcome']))
            cl('C15', 'rejected_wrote_nothing', not r['exists'],
               'Generator(%s) -> %s but the output directory was created (files %s)' % (' '.join(r['argv']), r['outcome'], r['listing']))
    return out, {'hash': key, 'accept': rec['accept'], 'pert': rec['pert'][0], 'traces': traces,
                 'sample': {'argv': gendrive.argv_of(rec, '<out>'), 'spec_accepts': rec['accept'], 'perturbation': rec['pert']}}


def count_sets(maxn, counts=None):
    r = set(range(1, maxn + 1))
    c = counts or {}
    return dict(N1s=c.get('n1', r), N2s=c.get('n2', r), N3s=c.get('n3', r))


def m1_generate(rep, tier):
    """exhaustive run of the generator machine over all draws (tiny counts)"""
    res = tlc.run('MC_Gen', dict(MaxN=2, MinLen=1, N1s={1, 2}, N2s={1, 2}, N3s={1, 2}, NumInsts={1} if tier == 'quick' else {1, 2}, Perturb=False, Generate=True,
                                 TypesUsed={'ha', 'sm', 'hr', 'spa'}, Rich=False, Spells={'short'}),
                  spec='MSpec', invariants=M1_INV, label='MPGen machine over every random draw (counts <= 2)', timeout=3000)
    tlc.require_ok(res, rep.pid)
    rep.add_tlc(tlc.stats_of(res))
    rep.notes.append('M1 generator machine, all draws: %d states' % res['distinct'])


def collect(rep, pool, tier, seed, perturb, nseeds, maxn=2, rich=False, sim=None, label='', counts=None, types=None,
            only_twosided=False, numinsts=None, every=1, spells=None, minlen=1):
    """Runs MC_Gen, replays vectors, returns list of traces of accepted runs."""
    traces = []
    seen = set()

    def on_result(info):
        rep.evaluations += 1
        if info['pert'] != 'none' or info['accept']:
            rep.distinct.add(info['hash'])
        rep.sample(info['sample'])
        traces.extend(info['traces'])

    def flt(tag, rec):
        k = key_of(rec)
        if k in seen:
            return False
        seen.add(k)
        if only_twosided and 'twopl' not in rec['given']:
            return False
        h = int(hashlib.sha1(k.encode()).hexdigest()[:6], 16)
        if every > 1 and (h + seed) % every:
            return False
        rec['_seeds'] = [seed * 1000 + h % 997 + i for i in range(nseeds)]
        return True
    res = engine.tlc_replay(rep, pool, 'MC_Gen', replay_args,
                            consts=dict(MaxN=maxn, MinLen=minlen, NumInsts=numinsts or {1, 2}, Perturb=perturb, Generate=False,
                                        TypesUsed=types or {'ha', 'sm', 'hr', 'spa'}, Rich=rich,
                                        Spells=spells or ({'short', 'long'} if perturb else {'short'}),
                                        **count_sets(maxn, counts)),
                            spec='MSpec', invariants=['ParserOK', 'FamilySound', 'RejectBeforeWrite', 'ExportArgs'],
                            label=label, on_result=on_result, export_filter=flt, timeout=3000)
    rep.notes.append('%s: %d argument vectors exported, %d generator runs traced' % (label, res['exports'], len(traces)))
    return traces


def validate(rep, traces, own):
    """Trace_Gen verdicts -> clauses.  own: property ids whose clauses count."""
    lens_by_key = {}
    B = 4000
    for i in range(0, len(traces), B):
        chunk = traces[i:i + B]
        slim = [{'args': t['args'], 'listing': t['listing'], 'files': t['files'],
                 'blocks': [gendrive.parse_block(f) for f in t['files']]} for t in chunk]
        verdicts, res = gendrive.validate_traces(slim, rep.pid)
        rep.add_tlc(tlc.stats_of(res))
        for t, v in zip(chunk, verdicts):
            rep.traces += 1
            fails = set(v['fails'])
            names = ['structure', 'header_counts', 'lines_numbered', 'project_line_fields', 'param_block', 'parens', 'lists', 'ties',
                     'quotas_spread', 'second_side_iff_twosided', 'file_count', 'file_names', 'second_side_exactly_rankers',
                     'spec_rejects_accepted_run', 'param_block_echo']
            for nme in names:
                prop = 'C12' if nme in C12_CLAUSES else ('C15' if nme == 'spec_rejects_accepted_run' else ('X' if nme == 'param_block_echo' else 'C08'))
                ok = nme not in fails
                rep.clause(nme if prop in own else prop + '.' + nme, ok, key='%s seed=%s | %s' % (t['key'], t['seed'], nme),
                           what='generated file violates clause %s: %r' % (nme, bytes(t['files'][0]).decode('latin-1') if t['files'] else ''),
                           case=None if ok else {'args': t['args'], 'seed': t['seed'], 'files': [bytes(x).decode('latin-1') for x in t['files']]},
                           own=prop in own)
            d = lens_by_key.setdefault(t['key'], {'lens': set(), 'lists': 0, 'args': t['args']})
            d['lens'].update(v['lens'])
            d['lists'] += t['args']['numinst'] * t['args']['v']['n1']
    return lens_by_key


# ---------------------------------------------------------------------------
# even spreading: MC_Spread.tla (bounded, TLC) + SpreadProofs.tla (unbounded, TLAPS) + the two helper functions
def replay_spread(tag, rec):
    from . import impl
    impl.ensure_repo()
    from matchingproblems.generator import generator_shared as gs
    from matchingproblems.generator.generator_spa import Generator_spa
    n, total = rec['n'], rec['total']
    key = 'n=%d total=%d' % (n, total)
    out = []

    def cl(name, ok, what=''):
        out.append((name, bool(ok), key + ' | ' + name, what, None if ok else {'n': n, 'total': total, 'spec': rec, 'observed': what}, 'C08'))
    try:
        got = [int(x) for x in gs.create_quotas(n, total)]
        cl('create_quotas_equals_spread', got == rec['spread'], 'create_quotas(%d, %d) = %s, Spread = %s' % (n, total, got, rec['spread']))
        # the default target sum is the float 0.0: sums may arrive as floats
        gotf = [int(x) for x in gs.create_quotas(n, float(total))]
        cl('create_quotas_float_sum', gotf == rec['spread'] and all(float(x).is_integer() for x in gs.create_quotas(n, float(total))),
           'create_quotas(%d, %r) = %s' % (n, float(total), gs.create_quotas(n, float(total))))
    except BaseException as e:  # noqa
        cl('create_quotas_equals_spread', False, '%s: %s' % (type(e).__name__, e))
    if total >= 1:
        try:
            got = [int(x) for x in Generator_spa().create_project_lecturers(total, n)]
            cl('project_lecturers_equals_spreadassign', got == rec['assign'],
               'create_project_lecturers(n2=%d, n3=%d) = %s, SpreadAssign = %s' % (total, n, got, rec['assign']))
        except BaseException as e:  # noqa
            cl('project_lecturers_equals_spreadassign', False, '%s: %s' % (type(e).__name__, e))
    return out, {'hash': key, 'sample': {'n': n, 'total': total, 'spec_spread': rec['spread']}}


def spread_stage(rep, pool, tier):
    import os
    import shutil
    import subprocess
    q = tier == 'quick'

    def on_result(info):
        rep.evaluations += 1
    res = engine.tlc_replay(rep, pool, 'MC_Spread', replay_spread, consts=dict(MaxN=8 if q else 12, MaxTotal=30 if q else 60), spec='SpSpec',
                            invariants=['SumsToTotal', 'DifferByOne', 'LargerFirst', 'NonNegative', 'AssignLaws', 'Export'],
                            label='Spread / SpreadAssign laws', on_result=on_result, timeout=1800)
    rep.notes.append('MC_Spread: %d (n, total) pairs model-checked and replayed into create_quotas / create_project_lecturers' % res['exports'])
    # unbounded: TLAPS
    src = os.path.join(common.SPEC, 'unbounded', 'SpreadProofs.tla')
    wd = common.subdir('tlaps-%d' % os.getpid())
    shutil.copy(src, wd)
    try:
        r = subprocess.run(['timeout', '900', 'tlapm', '--toolbox', '0', '0', 'SpreadProofs.tla'], cwd=wd, capture_output=True, text=True)
        txt = r.stdout + r.stderr
    except FileNotFoundError:
        txt = 'tlapm not found'
    import re
    m = re.search(r'All (\d+) obligations proved', txt)
    rep.cov['tlaps_spread_proofs'] = {'module': 'spec/unbounded/SpreadProofs.tla', 'all_proved': bool(m),
                                      'obligations': int(m.group(1)) if m else 0,
                                      'theorems': ['SpreadDomain', 'SpreadDiffersByAtMostOne', 'SpreadLargerSharesFirst', 'SpreadNonNegative',
                                                   'SpreadMonotoneInTotal', 'SpreadSumsToTotal']}
    if not m:
        common.machinery_exit(rep.pid, 'TLAPS could not re-check SpreadProofs.tla: %s' % txt[-600:])
    rep.notes.append('TLAPS: %s obligations of SpreadProofs.tla proved (unbounded n, total)' % m.group(1))
