"""Everything that touches the real code of fmcooper/matchingproblems.

The repository is imported from common.REPO (default /repo) so that every check
sees the current working tree.  Only public API, documented Model/Pair
attributes named in the property anchors, and the pulp boundary are used.
"""
import contextlib
import io
import itertools
import os
import sys

from . import common

_imported = False


def ensure_repo():
    global _imported
    if not _imported:
        common.scratch()
        if common.REPO not in sys.path:
            sys.path.insert(0, common.REPO)
        import matchingproblems  # noqa
        root = os.path.dirname(os.path.dirname(os.path.abspath(matchingproblems.__file__)))
        if os.path.realpath(root) != os.path.realpath(common.REPO):
            raise common.MachineryError('matchingproblems imported from %s, not %s' % (root, common.REPO))
        _imported = True


_fileno = itertools.count()


def write_text(codes_or_str, name=None):
    d = common.subdir('inst-%d' % os.getpid())
    path = os.path.join(d, name or ('i%d.txt' % next(_fileno)))
    data = codes_or_str.encode('latin-1') if isinstance(codes_or_str, str) else bytes(codes_or_str)
    with open(path, 'wb') as f:
        f.write(data)
    return path


@contextlib.contextmanager
def quiet():
    """argparse prints usage on error; keep the check output clean."""
    old_err, old_out = sys.stderr, sys.stdout
    sys.stderr, sys.stdout = io.StringIO(), io.StringIO()
    try:
        yield
    finally:
        sys.stderr, sys.stdout = old_err, old_out


def construct_solver(argv):
    """Returns ('ok', solver) | ('exit', code) | ('exc', repr)."""
    ensure_repo()
    from matchingproblems.solver.solver import Solver
    try:
        with quiet():
            s = Solver(list(argv))
        return 'ok', s
    except SystemExit as e:
        return 'exit', e.code
    except BaseException as e:  # noqa
        return 'exc', '%s: %s' % (type(e).__name__, e)


def loaded_instance(solver):
    """Projection of the loaded Model on the specification's instance record
    (documented Model / Pair attributes only)."""
    m = solver.model
    ns, np_, nl = m.num_students, m.num_projects, m.num_lecturers
    prefs, ranks = [], []
    lrank = [[0] * ns for _ in range(nl)]
    two = False
    pairinfo = []
    for row in m.pairs:
        prefs.append([int(p.projectID) for p in row])
        ranks.append([int(p.rank_student) for p in row])
        for p in row:
            pairinfo.append((int(p.studentID), int(p.projectID), int(p.lecturerID)))
            if hasattr(p, 'rank_lecturer'):
                two = True
                lrank[p.lecturer_index][p.student_index] = int(p.rank_lecturer)
    return {
        'ns': ns, 'np': np_, 'nl': nl, 'prefs': prefs, 'ranks': ranks,
        'plq': [int(x) for x in m.proj_lower_quotas], 'puq': [int(x) for x in m.proj_upper_quotas],
        'plec': [int(x) for x in m.proj_lecturers],
        'llq': [int(x) for x in m.lec_lower_quotas], 'lt': [int(x) for x in m.lec_targets],
        'luq': [int(x) for x in m.lec_upper_quotas],
        'two': two, 'lrank': lrank, '_pairinfo': pairinfo,
    }


def toks_to_strs(toks):
    return [''.join(chr(c) for c in t) for t in toks]
