"""Exact enumerator for the small bounded integer programs built by the solver.

This is the abstraction function alpha of DESIGN.md section 2: given the actual
pulp.LpProblem handed to the MILP back end it computes, exactly,

  * the projection of the integer feasible set onto chosen variables
    (the Pair.lp_var variables), and
  * for every projected point the best objective value over its extensions,
    hence the optimum and the complete set of optimal projected points.

It is semantic: names, order, splitting or duplication of constraints do not
matter.  Bounds propagation + depth-first search with branch and bound on the
non-projected variables.  Only integrality is assumed: every variable must be
integer (or fixed), every coefficient integral.
"""
from . import common

INF = 10 ** 7
NODE_LIMIT = 4_000_000


class Row:
    __slots__ = ('idx', 'coef', 'sense', 'rhs', 'name')

    def __init__(self, idx, coef, sense, rhs, name):
        self.idx, self.coef, self.sense, self.rhs, self.name = idx, coef, sense, rhs, name


def _as_int(x, what):
    if x is None:
        return None
    if isinstance(x, bool):
        return int(x)
    if isinstance(x, int):
        return x
    r = round(x)
    if abs(x - r) > 1e-9:
        raise common.MachineryError('non-integral %s: %r' % (what, x))
    return int(r)


class IP:
    def __init__(self, lp):
        vs = lp.variables()
        self.names = [v.name for v in vs]
        self.index = {n: i for i, n in enumerate(self.names)}
        if len(self.index) != len(self.names):
            # a file based back end cannot represent two columns with one name
            dup = sorted({n for n in self.names if self.names.count(n) > 1})
            raise DuplicateNames(dup)
        self.lo, self.hi = [], []
        for v in vs:
            lo, hi = _as_int(v.lowBound, 'bound'), _as_int(v.upBound, 'bound')
            if v.cat not in ('Integer', 'Binary') and not (lo is not None and lo == hi):
                raise common.MachineryError('continuous variable %s [%s,%s] is outside the enumerator' % (v.name, lo, hi))
            self.lo.append(-INF if lo is None else lo)
            self.hi.append(INF if hi is None else hi)
        self.rows = []
        for cname, c in lp.constraints.items():
            idx, coef = [], []
            for var, a in c.items():
                a = _as_int(a, 'coefficient')
                if a != 0:
                    idx.append(self.index[var.name])
                    coef.append(a)
            rhs = _as_int(-c.constant, 'constant')
            self.rows.append(Row(idx, coef, c.sense, rhs, cname))
        # objective, as "maximise sum(c_i x_i)"
        self.obj = {}
        self.obj_const = 0
        self.sign = 1
        if lp.objective is not None:
            self.sign = -1 if lp.sense == 1 else 1     # pulp: LpMinimize = 1, LpMaximize = -1
            for var, a in lp.objective.items():
                a = _as_int(a, 'objective coefficient')
                if a and var.name in self.index:
                    self.obj[self.index[var.name]] = self.sign * a
            self.obj_const = self.sign * _as_int(lp.objective.constant or 0, 'objective constant')
        self.rows_of = [[] for _ in self.names]
        for r in self.rows:
            for i in r.idx:
                self.rows_of[i].append(r)
        self.nodes = 0

    # ------------------------------------------------------------------
    def _propagate(self, lo, hi, queue):
        """Bounds tightening to a fixpoint.  Returns False on a wipe-out."""
        rows_of = self.rows_of
        pending = list(queue)
        inq = set(id(r) for r in pending)
        while pending:
            r = pending.pop()
            inq.discard(id(r))
            idx, coef = r.idx, r.coef
            mn = mx = 0
            for i, a in zip(idx, coef):
                if a > 0:
                    mn += a * lo[i]
                    mx += a * hi[i]
                else:
                    mn += a * hi[i]
                    mx += a * lo[i]
            sense, rhs = r.sense, r.rhs
            if sense <= 0 and mn > rhs:      # <= or ==
                return False
            if sense >= 0 and mx < rhs:      # >= or ==
                return False
            changed = []
            for i, a in zip(idx, coef):
                l, h = lo[i], hi[i]
                if l == h:
                    continue
                if a > 0:
                    mn_o, mx_o = mn - a * l, mx - a * h
                else:
                    mn_o, mx_o = mn - a * h, mx - a * l
                nl, nh = l, h
                if sense <= 0:               # a*x <= rhs - mn_o
                    b = rhs - mn_o
                    if a > 0:
                        nh = min(nh, b // a)
                    else:
                        nl = max(nl, _ceil_div(b, a))
                if sense >= 0:               # a*x >= rhs - mx_o
                    b = rhs - mx_o
                    if a > 0:
                        nl = max(nl, _ceil_div(b, a))
                    else:
                        nh = min(nh, _floor_div(b, a))
                if nl > nh:
                    return False
                if nl != l or nh != h:
                    lo[i], hi[i] = nl, nh
                    changed.append(i)
                    # keep running sums consistent
                    if a > 0:
                        mn += a * (nl - l)
                        mx += a * (nh - h)
                    else:
                        mn += a * (nh - h)
                        mx += a * (nl - l)
            for i in changed:
                for r2 in rows_of[i]:
                    if id(r2) not in inq:
                        inq.add(id(r2))
                        pending.append(r2)
        return True

    def _bound(self, lo, hi):
        b = self.obj_const
        for i, c in self.obj.items():
            b += c * (hi[i] if c > 0 else lo[i])
        return b

    def _best_ext(self, lo, hi, order, incumbent):
        """Best objective over integer extensions of the current box.  Returns
        (value, assignment) or None.  incumbent: (value, assignment) or None."""
        self.nodes += 1
        if self.nodes > NODE_LIMIT:
            raise common.MachineryError('enumerator node limit exceeded')
        if incumbent is not None and self._bound(lo, hi) <= incumbent[0]:
            return incumbent
        pick = -1
        for i in order:
            if lo[i] != hi[i]:
                pick = i
                break
        if pick < 0:
            val = self._bound(lo, hi)
            if incumbent is None or val > incumbent[0]:
                return (val, list(lo))
            return incumbent
        c = self.obj.get(pick, 0)
        vals = range(hi[pick], lo[pick] - 1, -1) if c > 0 else range(lo[pick], hi[pick] + 1)
        for v in vals:
            l2, h2 = list(lo), list(hi)
            l2[pick] = h2[pick] = v
            if self._propagate(l2, h2, self.rows_of[pick]):
                incumbent = self._best_ext(l2, h2, order, incumbent)
        return incumbent

    def solve(self, proj_names, want_assignments=True):
        """Returns Result with feasible projected points and their best values."""
        proj = [self.index[n] for n in proj_names if n in self.index]
        missing = [n for n in proj_names if n not in self.index]
        pset = set(proj)
        rest = [i for i in range(len(self.names)) if i not in pset]
        # objective variables first, then small domains
        rest.sort(key=lambda i: (0 if i in self.obj else 1, self.hi[i] - self.lo[i]))
        lo, hi = list(self.lo), list(self.hi)
        points = {}
        if self._propagate(lo, hi, self.rows):
            self._dfs_proj(lo, hi, proj, 0, rest, points)
        return Result(self, proj_names, missing, proj, points)

    def _dfs_proj(self, lo, hi, proj, k, rest, points):
        self.nodes += 1
        if self.nodes > NODE_LIMIT:
            raise common.MachineryError('enumerator node limit exceeded')
        while k < len(proj) and lo[proj[k]] == hi[proj[k]]:
            k += 1
        if k == len(proj):
            best = self._best_ext(lo, hi, rest, None)
            if best is not None:
                points[tuple(lo[i] for i in proj)] = best
            return
        i = proj[k]
        for v in range(lo[i], hi[i] + 1):
            l2, h2 = list(lo), list(hi)
            l2[i] = h2[i] = v
            if self._propagate(l2, h2, self.rows_of[i]):
                self._dfs_proj(l2, h2, proj, k + 1, rest, points)


def _ceil_div(b, a):
    return -((-b) // a)


def _floor_div(b, a):
    return b // a


class DuplicateNames(Exception):
    def __init__(self, names):
        Exception.__init__(self, 'duplicate variable names %s' % names)
        self.names = names


class Result:
    def __init__(self, ip, proj_names, missing, proj, points):
        self.ip, self.proj_names, self.missing = ip, proj_names, missing
        self.points = points                      # proj tuple -> (maximised value, full assignment)
        self.feasible = sorted(points)
        if points:
            self.best = max(v[0] for v in points.values())
            self.optimal = sorted(p for p, v in points.items() if v[0] == self.best)
        else:
            self.best, self.optimal = None, []

    def objective_value(self):
        """Optimum in the problem's own sense (undoing the max-normalisation)."""
        return None if self.best is None else self.ip.sign * self.best

    def assignment(self, point):
        vals = self.points[point][1]
        return {n: vals[i] for i, n in enumerate(self.ip.names)}

    def full_point(self, point):
        """projected point padded with 0 for projection variables that do not
        occur in the problem at all"""
        it = iter(point)
        return tuple(0 if n in self.missing else next(it) for n in self.proj_names)
