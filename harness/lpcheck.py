"""Generic driver for the properties decided on MC_Solver families."""
import hashlib

from . import common, engine, solverplay, tlc


def run_lp_check(pid, tier, seed, runs, owns=(), level='model_checking', rule='', assumptions=(),
                 nontrivial=None, worker=None, post=None, report=None, finish=True):
    rep = report or common.Report(pid, tier, seed, level=level)
    rep.owns = set(owns)
    pool = engine.Pool()
    seen = set()
    worker = worker or solverplay.replay_lp

    def on_result(info):
        h = info.get('hash')
        rep.evaluations += 1
        if nontrivial is None or nontrivial(info):
            if h is not None:
                rep.distinct.add(h)
            else:
                rep.distinct.add(len(rep.distinct))
        if 'sample' in info:
            rep.sample(info['sample'])
    try:
        for i, r in enumerate(runs):
            sim = r.get('simulate')
            kw = {}
            if sim:
                num, depth = sim
                kw['simulate'] = (max(1, num // common.NCPU), depth)
                kw['seed'] = seed + i

            def flt(tag, rec, seen=seen):
                h = hashlib.sha1(repr(sorted(rec['o'].items(), key=str)).encode()).hexdigest()[:16]
                if h in seen:
                    return False
                seen.add(h)
                rec['_h'] = h
                return True
            res = engine.tlc_replay(rep, pool, r.get('module', 'MC_Solver'), r.get('worker', worker), consts=r['consts'],
                                    invariants=r['invariants'], label=r['label'], on_result=on_result,
                                    export_filter=flt, timeout=r.get('timeout', 3000),
                                    constraint=r.get('constraint'),
                                    coverage=(r.get('coverage') if r.get('coverage') is not None else (not sim and not rep.cov.get('tlc_action_coverage'))), **kw)
            if res.get('coverage'):
                rep.cov.setdefault('tlc_action_coverage', {})[r['label']] = {a: c['distinct'] for a, c in res['coverage'].items()}
                if r['consts'].get('ExportMode', 'run') == 'run' and r.get('module', 'MC_Solver') == 'MC_Solver':
                    cv = res['coverage']
                    if not (cv.get('DoSolveStep', {}).get('distinct') or cv.get('DoBFRun', {}).get('distinct')):
                        common.machinery_exit(pid, 'vacuous run %s: the solver actions were never taken (%s)' % (r['label'], cv))
            rep.notes.append('%s: %s, %d behaviours exported, %d states, %.0fs' % (
                r['label'], 'simulate' if sim else 'exhaustive BFS', res['exports'], res['distinct'], res['wall_s']))
        if post:
            try:
                post(rep, pool)
            except (Exception, SystemExit) as e:
                # a failure of the second stage must not hide violations the first stage already found
                if not rep.violations:
                    raise
                rep.notes.append('second stage not completed (%s: %s); reporting the violations found so far' % (type(e).__name__, str(e)[:200]))
    finally:
        pool.close()
    rep.assumptions = list(assumptions) or [
        'instances are well-formed (DESIGN.md section 5)', 'solutions handed to the code are exact integer points',
        'TLC / SANY / CommunityModules are correct']
    if not finish:
        return rep
    return rep.finish(exhaustive=all(not r.get('simulate') for r in runs), rule=rule)
