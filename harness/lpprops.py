"""Run tables for the properties decided on MC_Solver families (C01-C05, C10, C11, C16)."""
import random

from . import families as fm
from . import lpcheck, solverplay

RULES = {
    'C01': 'instance files and option sets constructed by TLC (families in notes); every optimal point of the last solve is '
           'checked against the valid matchings of the specification; non-trivial = at least 2 admissible matchings',
    'C02': 'TLC-constructed instance x ordered criteria lists; status, emptiness at every solve, exceptions; '
           'non-trivial = criteria list non-empty',
    'C03': 'TLC-constructed instance x each criterion with each admissible argument vector; optimum of the actual problem '
           'vs declarative optimum; non-trivial = optimum is not attained by every admissible matching',
    'C04': 'TLC-constructed instance x ordered lists of 2-3 criteria (flag order permuted, gaps); non-trivial = final set '
           'strictly smaller than the first criterion optimum set',
    'C05': 'two-sided TLC-constructed instances with -stab; admissible set of the real IP must EQUAL the stable matchings; '
           'non-trivial = some valid matching is unstable',
    'C10': 'TLC renders every file character by character in several whitespace styles; loaded Model compared field by field',
    'C11': 'no criterion: every valid matching is optimal, the stand-in returns each one; all printed fields compared',
    'C16': 'criteria lists with permuted flags and gaps; parsed order, solve count, reported lines',
}


def runs_for(pid, tier, seed):
    q = tier == 'quick'
    rng = random.Random(seed)
    R = fm.run_spec
    none = [()]
    if pid == 'C01':
        some = none + [(fm.C('maxsize'),), (fm.C('gen'),), (fm.C('mincost', 1, 1),), (fm.C('maxsize'), fm.C('lsb'))]
        runs = [
            R('s2core/IP', fm.s2core(CritLists=none, CheckIP=True, ReportCap=64, Stabs={False} if q else {False, True}), simulate=8000 if q else None),
            R('zerocap', fm.zerocap(CritLists=none, ReportCap=64, Stabs={False} if q else {False, True})),
            R('hr2', fm.hr2(CritLists=none, ReportCap=64, CheckIP=True, Stabs={False} if q else {False, True}), simulate=8000 if q else None),
            R('wide3x3x2', fm.wide(ReportCap=4, **fm.build(0, 4)), simulate=3000 if q else 40000),
            R('wide-hr3x3', fm.wide(na=2, CritLists=some, ReportCap=4), simulate=1500 if q else 20000),
            R('11 projects, ties', fm.twodigit_projects(TieMode='all', CritLists=none + [(fm.C('maxsize'),)], ReportCap=2, PCs={False, True}),
              simulate=1000 if q else 12000, invariants=fm.BIG_INVARIANTS),
            R('lists of four', fm.four_long(CritLists=some, ReportCap=4), simulate=1500 if q else 20000),
            R('three lecturers', fm.lec3(ReportCap=4, **fm.build(0, 3)), simulate=2000 if q else 25000),
            R('large ids (core embedded among dummy agents)', fm.shifted(ReportCap=3, **fm.build(0, 2)), simulate=160 if q else 2000,
              invariants=fm.BIG_INVARIANTS),
        ]
        if not q:
            runs += [R('shared3', fm.shared3(CritLists=none, ReportCap=64, CheckIP=True)),
                     R('s2core/crit', fm.s2core(CritLists=some[1:], ReportCap=8)),
                     R('wide4x3x2', fm.wide(ns=4, CritLists=some, ReportCap=4, MaxLen=2), simulate=10000)]
        return runs
    if pid == 'C02':
        pr = fm.pairs(0)
        pr1 = fm.pairs(1)
        bounds = dict(NS=2, NP=1, NL=1, PQ={(0, 2), (2, 2), (1, 2)}, LQ={(0, 2, 2), (2, 2, 2), (0, 3, 3)}, Sided={'two'},
                      OrderMode='all', Stabs={False}, PCs={False})
        lec3 = dict(NS=1, NP=2, NL=2, PQ={(0, 1)}, LQ={(0, 2, 2), (0, 1, 2), (0, 3, 3)}, LecMapMode='all', Sided={'one'},
                    PCs={False}, Stabs={False})
        runs = [
            R('bounds(2 students,1 lecturer) x singles', fm.fam(CritLists=fm.singles(), CheckIP=True, **bounds)),
            R('targets(1 student,2 lecturers) x singles+pairs', fm.fam(CritLists=fm.singles() + pr, CheckIP=True, **lec3)),
            R('s2core x pairs', fm.s2core(CritLists=pr + pr1, PQ={(0, 1), (1, 2)}, LQ={(0, 1, 1), (0, 2, 2)}, MaxLen=2, TieMode='none',
                                          Stabs={False}), simulate=4000 if q else 60000),
            R('wide x lists<=9', fm.wide(**fm.build(1, 9)), simulate=3000 if q else 40000),
            R('wide-hr x lists', fm.wide(na=2, **fm.build(1, 6)), simulate=1500 if q else 20000),
            R('zerocap x singles', fm.zerocap(CritLists=fm.singles(False))) if not q else
            R('zerocap x singles', fm.zerocap(CritLists=fm.singles(False)), simulate=3000),
        ]
        if not q:
            runs += [R('bounds x triples', fm.fam(CritLists=fm.triples(), **bounds), simulate=30000),
                     R('shared3 x pairs', fm.shared3(CritLists=pr), simulate=30000)]
        return runs
    if pid == 'C03':
        sg = fm.singles()
        runs = [
            R('s2 strict x singles', fm.s2core(CritLists=sg, PQ={(0, 1), (0, 2)}, LQ={(0, 1, 2), (0, 2, 2)},
                                               Stabs={False}, PCs={False}, CheckIP=True), simulate=None if not q else 6000),
            R('bounds x singles', fm.fam(CritLists=sg, CheckIP=True, NS=2, NP=1, NL=1, PQ={(0, 2), (2, 2)},
                                         LQ={(0, 2, 2), (2, 2, 2), (0, 3, 3)}, Sided={'two'}, Stabs={False, True})),
            R('targets x singles', fm.fam(CritLists=sg, NS=1, NP=2, NL=2, PQ={(0, 1)}, LQ={(0, 2, 2), (0, 1, 2), (0, 3, 3)},
                                          LecMapMode='all', Sided={'one'}, PCs={False}, Stabs={False})),
            R('wide x singles', fm.wide(CritLists=sg), simulate=4000 if q else 60000),
            R('wide-hr x singles', fm.wide(na=2, CritLists=sg), simulate=1500 if q else 20000),
            R('lists of four x singles', fm.four_long(CritLists=sg), simulate=2500 if q else 30000),
            R('three lecturers x singles', fm.lec3(CritLists=sg), simulate=2500 if q else 30000),
            R('large ids x singles', fm.shifted(CritLists=sg), simulate=160 if q else 2000, invariants=fm.BIG_INVARIANTS),
        ]
        if not q:
            runs += [R('shared3 x singles', fm.shared3(CritLists=sg), simulate=40000),
                     R('wide4 x singles', fm.wide(ns=4, CritLists=sg, MaxLen=2), simulate=10000)]
        return runs
    if pid == 'C04':
        pr = fm.pairs(0) + rng.sample(fm.pairs(1), 30) + rng.sample(fm.pairs(2), 30)
        tr = rng.sample(fm.triples(), 120 if q else 504)
        runs = [
            R('s2core x 2-3 criteria (id/rev/gap/hi)', fm.s2core(Press={'id', 'rev', 'gap', 'hi'}, MaxLen=2, **fm.build(2, 3)), simulate=5000 if q else 80000),
            R('wide x 2-4 criteria', fm.wide(Press={'id', 'rev', 'gap', 'hi'}, **fm.build(2, 4)), simulate=4000 if q else 60000),
            R('lists of four x 2-3 criteria', fm.four_long(Press={'id', 'hi'}, **fm.build(2, 3)), simulate=1500 if q else 20000),
            R('large ids x 2-3 criteria', fm.shifted(Press={'id', 'hi'}, **fm.build(2, 3)), simulate=160 if q else 2000, invariants=fm.BIG_INVARIANTS),
            R('wide x 5-9 criteria', fm.wide(Press={'id', 'rev'}, **fm.build(5, 9)), simulate=500 if q else 8000),
            R('wide-hr x 2-3 criteria', fm.wide(na=2, Press={'id', 'rev'}, **fm.build(2, 3)), simulate=1500 if q else 20000),
            R('shared3 x 3 criteria', fm.shared3(Press={'id', 'gap'}, **fm.build(3, 3)), simulate=2000 if q else 30000),
        ]
        return runs
    if pid == 'C05':
        crit = none + [(fm.C('maxsize'),), (fm.C('minsize'),)]
        two = dict(Sided={'two'}, Stabs={True})
        runs = [
            R('s2core/IP two-sided', fm.s2core(CritLists=crit, OrderMode='all', CheckIP=True, PQ={(0, 1), (0, 2)},
                                               LQ={(0, 1, 1), (0, 1, 2), (0, 2, 2)}, **two), simulate=None if not q else 8000),
            R('zerocap', fm.zerocap(CritLists=crit, CheckIP=True, **two)),
            R('hr2', fm.hr2(CritLists=crit, CheckIP=True, Sided={'two'}, Stabs={True}), simulate=10000 if q else None),
            R('shared3', fm.shared3(CritLists=crit, OrderMode='all', CheckIP=q is False, **two), simulate=3000 if q else None),
            R('wide', fm.wide(CritLists=crit, **two), simulate=3000 if q else 40000),
            R('wide-hr', fm.wide(na=2, CritLists=crit, Sided={'two'}, Stabs={True}), simulate=1500 if q else 20000),
            R('four students, short lists', fm.four_short(CritLists=crit), simulate=3000 if q else 40000),
            R('four hospitals/residents', fm.four_short(NA=2, NP=2, CritLists=crit), simulate=1500 if q else 20000),
            R('lists of four', fm.four_long(CritLists=crit, Sided={'two'}, Stabs={True}, OrderMode='all'), simulate=1500 if q else 20000),
            R('three lecturers', fm.lec3(CritLists=crit, Sided={'two'}, Stabs={True}), simulate=2000 if q else 25000),
            R('large ids', fm.shifted(CritLists=crit, Sided={'two'}, Stabs={True}, NL=1), simulate=200 if q else 2500, invariants=fm.BIG_INVARIANTS),
            # a LONG lecturer list (33 / 40 further students whose only choice has upper quota 0) around a 3-student core with ties
            R('crowd on one lecturer list', fm.shifted(CritLists=crit, Sided={'two'}, Stabs={True}, NS=3, NL=1, PQ={(0, 1), (0, 2)}, LQ={(0, 1, 1), (0, 2, 2)},
                                                       Shifts=fm.CROWDS), simulate=120 if q else 1500, invariants=fm.BIG_INVARIANTS),
        ]
        return runs
    if pid == 'C11':
        runs = [
            R('s2core', fm.s2core(CritLists=none, ReportCap=64, Stabs={False}, PCs={True})),
            R('hr2', fm.hr2(CritLists=none, ReportCap=64, Stabs={False}, PCs={False, True})),
            R('wide', fm.wide(CritLists=none + [(fm.C('maxsize'),)], ReportCap=12, PCs={True}), simulate=2000 if q else 30000),
            R('shared3', fm.shared3(CritLists=none, ReportCap=64, Stabs={False}, PCs={True}), simulate=2000 if q else None),
            R('11 projects (two-digit ids)', fm.twodigit_projects(CritLists=none + [(fm.C('maxsize'),)], ReportCap=6), simulate=1200 if q else 15000),
            R('lists of four, every tie structure', fm.four_long(CritLists=none + [(fm.C('maxsize'),)], ReportCap=8, PCs={True}, Stabs={False}),
              simulate=1500 if q else 20000),
            R('three lecturers', fm.lec3(CritLists=none, ReportCap=16, PCs={True}, Stabs={False}), simulate=1500 if q else 20000),
            R('large ids', fm.shifted(CritLists=none + [(fm.C('maxsize'),)], ReportCap=6, PCs={True}, Stabs={False}), simulate=160 if q else 2000,
              invariants=fm.BIG_INVARIANTS),
            R('10 students (two-digit ids)', fm.twodigit_students(CritLists=[(fm.C('maxsize'),), (fm.C('maxsize'), fm.C('mincost'))], ReportCap=3),
              simulate=400 if q else 5000, invariants=['FamilyWellFormed', 'ReportedValid', 'StatusIffFeasible', 'Export']),
        ]
        return runs
    if pid == 'C10':
        st = {'plain', 'wide', 'tabs', 'crlf', 'nofinal'}
        ld = dict(CritLists=none, CheckText=True, Styles=st, InfoBlocks={False, True}, PCs={False}, Stabs={False}, ReportCap=0,
                  ExportMode='load')
        inv = ['FamilyWellFormed', 'ReadRender', 'Export']
        runs = [
            R('s2core/text', fm.s2core(OrderMode='all', PQ={(0, 1), (1, 2)}, LQ={(0, 1, 1), (1, 1, 2)}, **ld), invariants=inv,
              simulate=8000 if q else None),
            R('hr2/text', fm.hr2(**ld), invariants=inv, simulate=6000 if q else None),
            R('wide/text', fm.wide(**ld), invariants=inv, simulate=4000 if q else 40000),
            R('wide-hr/text', fm.wide(na=2, **ld), invariants=inv, simulate=3000 if q else 40000),
            R('11 projects/text', fm.twodigit_projects(TieMode='all', **ld), invariants=inv, simulate=1500 if q else 15000),
            R('10 students/text', fm.twodigit_students(OrderMode='asctied', **ld), invariants=inv, simulate=800 if q else 8000),
            R('11 lecturers, quotas >= 10/text', fm.twodigit_lecturers(**ld), invariants=inv, simulate=600 if q else 6000),
            R('12 students x 11 lecturers, two-sided/text', fm.both_twodigit(**dict(ld, CheckText=False)), invariants=['FamilyWellFormed', 'Export'],
              simulate=1500 if q else 15000, depth=90),
            R('large ids/text', fm.shifted(**dict(ld, CheckText=False, Stabs={False})), invariants=['FamilyWellFormed', 'Export'], simulate=240 if q else 3000),
            R('split ids (students 1 and 257+ on the same lists)/text', fm.shifted(**dict(ld, CheckText=False, Stabs={False}, Shifts=fm.SPLITS, NS=3, NL=1,
                                                                                     Sided={'two'}, OrderMode='all')),
              invariants=['FamilyWellFormed', 'Export'], simulate=240 if q else 3000),
            R('12 students, ties everywhere/text', fm.twodigit_students(NS=12, NP=3, MaxLen=3, TieMode='all', OrderMode='asctied', **ld),
              invariants=inv, simulate=500 if q else 5000),
        ]
        runs.append(R('numbers not ordered (target > upper quota, lower > upper)/text', fm.unordered_numbers(**ld),
                      invariants=['FamilyShaped', 'ReadRender', 'Export'], simulate=3000 if q else None))
        runs.append(R('numbers not ordered, 2-agent/text', fm.unordered_numbers(NA=2, NL=2, Sided={'one', 'two', 'ignored'}, **ld),
                      invariants=['FamilyShaped', 'ReadRender', 'Export'], simulate=2000 if q else None))
        for r in runs:
            r['worker'] = solverplay.replay_load
        return runs
    raise KeyError(pid)


NONTRIVIAL = {
    'C01': lambda i: i['nF0'] >= 2,
    'C02': lambda i: i['ncrit'] >= 1,
    'C03': lambda i: i['ncrit'] == 1 and i['nF'] < i['nF0'],
    'C04': lambda i: i['ncrit'] >= 2 and i['nF'] < i['nF0'],
    'C05': lambda i: i['stab'] and i['nF0'] >= 1,
    'C10': lambda i: True,
    'C11': lambda i: i['nF0'] >= 2,
}


def probe_variable_names(rep):
    """C02 (the MPS/LP path needs unique column names): the naming of the pair
    variables - and of their alpha/beta companions - is probed directly on Pair
    objects for ids far beyond the instance families (NamesUnique of MPIP.tla
    covers the objective variables)."""
    from . import impl
    impl.ensure_repo()
    import pulp
    from matchingproblems.solver.model import Pair
    names = {}
    bad = None
    N = 40
    for s_ in range(1, N + 1):
        for p_ in range(1, N + 1):
            pr = Pair(s_, p_, 1)
            pr.pulp_setup(pulp.LpProblem('probe', pulp.LpMaximize), True)
            for v in (pr.lp_var, pr.alpha_var, pr.beta_var):
                if v.name in names and bad is None:
                    bad = (v.name, names[v.name], (s_, p_))
                names[v.name] = (s_, p_)
    rep.clause('pair_variable_names_unique', bad is None, key='naming probe',
               what='variable name %r is given to pairs %s and %s' % bad if bad else '',
               case={'collision': bad})
    rep.notes.append('variable naming probe: %d names of pair/alpha/beta variables for ids 1..%d x 1..%d, all distinct: %s' % (len(names), N, N, bad is None))


def growth_misc(rep):
    """Growth beyond the listed properties (pseudo-property X: recorded, never a verdict):
    -h of both parsers, README entry points, solve(write=True) writes the problem that was solved."""
    import os
    from . import common, impl
    impl.ensure_repo()
    import matchingproblems.solver as ms
    import matchingproblems.generator as mg
    from matchingproblems.generator.instance_options_parser import Instance_options_parser
    for name, fn in (('solver', lambda: ms.Solver(['-h'])), ('generator', lambda: Instance_options_parser().parse(['-h']))):
        try:
            with impl.quiet():
                fn()
            code = 'returned'
        except SystemExit as e:
            code = e.code
        except BaseException as e:  # noqa
            code = repr(e)
        rep.clause('X.help_exits_zero_' + name, code == 0, key='-h ' + name, what='-h -> %r' % (code,), own=False)
    rep.clause('X.readme_entry_points', ms.Solver.__name__ == 'Solver' and mg.Generator.__name__ == 'Generator', key='entry points', own=False)
    # the create() factory functions build the same objects as the constructors
    try:
        import matchingproblems.solver.solver as mss
        import matchingproblems.generator.generator as mgg
        pth = impl.write_text('1 1 1\n1: 1\n1: 0: 1: 1\n1: 0: 1: 1\n')
        s1 = mss.create(['-f', pth, '-na', '3'])
        gd = os.path.join(common.subdir('create-%d' % os.getpid()), 'o')
        with impl.quiet():
            g1 = mgg.create(['-numinst', '1', '-o', gd, '-mp', 'ha', '-n1', '1', '-n2', '1', '-pmin', '1', '-pmax', '1', '-uq', '1'])
        ok = isinstance(s1, mss.Solver) and isinstance(g1, mgg.Generator) and os.path.exists(os.path.join(gd, '0.txt'))
        os.unlink(pth)
        rep.clause('X.create_factories', ok, key='create()', what='create() returned %r, %r' % (type(s1).__name__, type(g1).__name__), own=False)
    except BaseException as e:  # noqa
        rep.clause('X.create_factories', False, key='create()', what='%s: %s' % (type(e).__name__, e), own=False)
    text = '2 2 1\n1: 1 2\n2: (1 2)\n1: 0: 1: 1\n2: 0: 1: 1\n1: 0: 2: 2: 1 2\n'
    path = impl.write_text(text)
    # the long spelling of -pc / -bf / -twopl / -stab selects the same options as the short one
    try:
        sa = ms.Solver(['-f', path, '-na', '3', '-twopl', '-pc', '-stab', '-bf']).options_parser
        sb = ms.Solver(['-filename', path, '-numagents', '3', '-twosidedpreferencelists', '-projectclosures', '-stability', '-bruteforce']).options_parser
        same = (sa.instance_options == sb.instance_options and sa.extra_constraints == sb.extra_constraints
                and sa.solver_options == sb.solver_options and sa.optimisation_options == sb.optimisation_options)
        rep.clause('X.long_spellings_of_switches', same, key='long switches',
                   what='short %s %s %s, long %s %s %s' % (sa.instance_options, sa.extra_constraints, sa.solver_options,
                                                        sb.instance_options, sb.extra_constraints, sb.solver_options), own=False)
    except BaseException as e:  # noqa
        rep.clause('X.long_spellings_of_switches', False, key='long switches', what='%s: %s' % (type(e).__name__, e), own=False)
    # msg / threads / timeLimit of solve() reach the back end object of every underlying solve
    from . import observe
    try:
        S0 = ms.Solver(['-f', path, '-na', '3', '-maxsize', '1', '-gen', '2'])
        rec0 = observe.Recorder(mode='standin', keep_sets=False)
        with observe.observing(rec0, S0):
            S0.solve(msg=False, timeLimit=7, threads=3)
        seen = [(e.get('timeLimit'), e.get('threads'), bool(e.get('msg'))) for e in rec0.events]
        rep.clause('X.solve_arguments_reach_back_end', bool(seen) and all(x == (7, 3, False) for x in seen), key='pass-through',
                   what='solve(msg=False, timeLimit=7, threads=3): back end saw %s' % (seen,), own=False)
    except BaseException as e:  # noqa
        rep.clause('X.solve_arguments_reach_back_end', False, key='pass-through', what='%s: %s' % (type(e).__name__, e), own=False)
    cwd = os.getcwd()
    d = common.subdir('write-%d' % os.getpid())
    os.chdir(d)
    try:
        S = ms.Solver(['-f', path, '-na', '3', '-twopl', '-stab', '-maxsize', '1', '-lsb', '2'])
        S.solve(write=True)
        lp = open(os.path.join(d, 'model.lp')).read() if os.path.exists(os.path.join(d, 'model.lp')) else None
        names = [v.name for v in S.solver.prob.variables()]
        ok = lp is not None and all(n.replace('(', '_').replace(')', '_').replace(',', '_') in lp or n in lp for n in names if n != '__dummy')
        rep.clause('X.write_lp_file_lists_all_variables', ok, key='write=True',
                   what='model.lp %s; variables %s' % ('missing' if lp is None else 'written', names[:6]), own=False)
    except BaseException as e:  # noqa
        rep.clause('X.write_lp_file_lists_all_variables', False, key='write=True', what='%s: %s' % (type(e).__name__, e), own=False)
    finally:
        os.chdir(cwd)
        os.unlink(path)


def termination_stage(rep, tier):
    """C02 'terminates' (M1, liveness): under weak fairness of the solver's own steps every run that has begun ends
    (RunTerminates), and the number of underlying solves is bounded by what the criteria list needs (SolvesBounded).
    Checked by TLC without a state constraint on a complete small family; the implementation side of 'terminates' is
    that every replayed run returned (a hanging replay would stop the check by its timeout: exit 2)."""
    from . import tlc
    C = fm.C
    base = dict(NS=2, NP=2, NL=1 if tier == 'quick' else 2, MaxLen=2, TieMode='none' if tier == 'quick' else 'all', AllowEmpty=True,
                PQ={(0, 1), (1, 1)}, LQ={(0, 2, 2)}, Sided={'one'}, PCs={False, True})
    f = fm.fam(CritLists=[(), (C('maxsize'), C('gre')), (C('gen'), C('mincost'), C('lsb')), (C('minsize'), C('lmb'), C('gre', 1), C('mincostlsb'))], **base)
    res = tlc.run('MC_Solver', consts=f, invariants=['SolvesBounded'], spec='FairSpec', properties=['RunTerminates'],
                  label='termination: FairSpec |= RunTerminates, SolvesBounded', timeout=1500)
    tlc.require_ok(res, rep.pid)
    rep.add_tlc(tlc.stats_of(res))
    rep.notes.append('liveness: RunTerminates holds under WF(DoSolveStep), WF(DoEndSolve) on %d states (no state constraint)' % res['distinct'])


def main(pid, tier, seed):
    post = None
    if pid in ('C01', 'C02', 'C03', 'C04', 'C05'):
        from . import m3real

        def post(rep, pool):
            m3real.run(rep, pool, pid, m3real.jobs_for(pid, tier, seed), 'real CBC on Evaluations/ and generator instances')
            if pid == 'C02':
                termination_stage(rep, tier)
                probe_variable_names(rep)
                growth_misc(rep)
            if pid == 'C04':
                m3real.run_archive(rep, pid, False)
    return lpcheck.run_lp_check(pid, tier, seed, runs_for(pid, tier, seed), rule=RULES[pid], nontrivial=NONTRIVIAL.get(pid), post=post)
