"""M3 for the solver properties (C01-C05): executions of the REAL solver with the
REAL CBC on inputs TLC did not choose - the instances shipped under
Evaluations/, and instances written by the repository's own generator (seeded,
5-6 first-side agents) - recorded as traces and validated by Trace_Pipe.tla.

Every clause of Trace_Pipe is attributed to one property (same attribution as in
the M2 replay), so a check fails only on its own clauses.
"""
import glob
import hashlib
import os
import random

from . import common, families as fm, gendrive, impl, pipedrive, tlc

ATTR = {
    'loads_without_error': 'C10', 'loaded_equals_file': 'C10', 'file_is_well_formed_instance': 'C08',
    'no_exception': 'C02', 'status_iff_feasible': 'C02', 'no_matching_when_infeasible': 'C02',
    'matching_valid': 'C01', 'matching_stable': 'C05', 'stability_correct_true': 'C06',
    'matching_lexoptimal': None,      # C03 for one criterion, C04 for several
    'optimum_values': None,
    'printed_statistics': 'C11', 'bf_equals_optimum': 'C07',
}

EVAL = [('hr', 2, True), ('spa', 3, True), ('spa_no_lq', 3, True), ('spa_onesided', 3, False)]

GEN_VECTORS = [   # (mp, argv tail, na, two-sided)
    ('hr', '-n1 5 -n2 3 -pmin 1 -pmax 3 -t1 0.3 -t2 0.3 -skew 2 -lq 1 -uq 6 -twopl', 2, True),
    ('sm', '-n1 4 -pmin 2 -pmax 4 -t1 0.4 -t2 0.4 -twopl', 2, True),
    ('ha', '-n1 5 -n2 4 -pmin 1 -pmax 3 -t1 0.3 -lq 1 -uq 6', 2, False),
    ('spa', '-n1 5 -n2 4 -n3 2 -pmin 1 -pmax 3 -t1 0.3 -t2 0.3 -skew 3 -lq 1 -uq 7 -llq 1 -lt 3 -luq 5 -twopl', 3, True),
    ('spa', '-n1 5 -n2 4 -n3 3 -pmin 2 -pmax 3 -t1 0.2 -lq 0 -uq 6 -lt 4 -luq 7', 3, False),
    ('spa', '-n1 6 -n2 3 -n3 2 -pmin 1 -pmax 2 -t1 0.5 -t2 0.5 -uq 5 -llq 2 -lt 4 -luq 6 -twopl', 3, True),
]


def instances(seed, n_eval, n_gen):
    """-> list of (label, text codes, na, two)"""
    impl.ensure_repo()
    out = []
    rng = random.Random(seed)
    files = []
    for d, na, two in EVAL:
        for f in sorted(glob.glob(os.path.join(common.REPO, 'Evaluations', d, 'instances', '*.txt'))):
            files.append((d, f, na, two))
    rng.shuffle(files)
    for d, f, na, two in files[:n_eval]:
        out.append(('Evaluations/%s/%s' % (d, os.path.basename(f)), list(open(f, 'rb').read()), na, two))
    import numpy as np
    from matchingproblems.generator.generator import Generator
    k = 0
    while len(out) < n_eval + n_gen and k < 10 * n_gen + 10:
        mp, tail, na, two = GEN_VECTORS[k % len(GEN_VECTORS)]
        sd = seed * 100 + k
        k += 1
        d = os.path.join(common.subdir('m3gen-%d' % os.getpid()), 'g%d' % k)
        random.seed(sd)
        np.random.seed(sd % (2 ** 32))
        try:
            with impl.quiet():
                Generator(('-numinst 1 -o %s -mp %s %s' % (d, mp, tail)).split())
        except BaseException:  # noqa  - the generator is not the subject here (C08/C09/C15 judge it): skip the vector
            continue
        out.append(('generator -mp %s %s seed=%d' % (mp, tail, sd), list(open(os.path.join(d, '0.txt'), 'rb').read()), na, two))
    return out


def record_job(tag, job):
    label, text, na, two, osx = job
    t = pipedrive.record_run(text, na, two, enumerate_cbc=False, **osx)
    t['meta'] = {'instance': label, 'opts': {k: (v if k != 'crits' else ['%s%s' % (c['c'], c['x'] or '') for c in v]) for k, v in osx.items()}}
    return [], {'trace': t}


def run(rep, pool, pid, jobs, label):
    """jobs: list of (label, text, na, two, optset).  Records with real CBC in the
    pool, validates with Trace_Pipe, attributes clauses."""
    res = pool.map(record_job, [('M3', j) for j in jobs], chunk=2)
    traces = []
    for kind, val in res:
        if kind == 'mach':
            common.machinery_exit(pid, val)
        traces.append(val[1]['trace'])
    verdicts, st = pipedrive.validate(traces, pid, label='Trace_Pipe: ' + label, chunks=8, workers=2)
    rep.add_tlc(tlc.stats_of(st))
    for t, v in zip(traces, verdicts):
        rep.traces += 1
        rep.evaluations += 1
        fails = set(v['fails'])
        multi = len(t['crits']) > 1
        key0 = '%s opts=%s' % (t['meta']['instance'], t['meta']['opts'])
        for nme, prop in ATTR.items():
            if prop is None:
                prop = 'C04' if multi else 'C03'
            ok = nme not in fails
            own = prop == pid or prop in rep.owns
            rep.clause(('m3_' + nme) if own else (prop + '.m3_' + nme), ok, key=key0 + ' | ' + nme,
                       what='real CBC run on %s with %s: clause %s fails; status=%r matching=%s objective values=%s exception=%r'
                            % (t['meta']['instance'], t['meta']['opts'], nme, t['status'], t['matching'], t['objvals'], t['exception']),
                       case=None if ok else {k: (bytes(x).decode('latin-1') if k == 'text' else x) for k, x in t.items()}, own=own)
        if v['nF0'] >= 2:
            rep.distinct.add('m3:' + hashlib.sha1(key0.encode()).hexdigest()[:12])
    rep.notes.append('M3 %s: %d real-CBC runs validated by Trace_Pipe.tla' % (label, len(traces)))
    if traces:
        t = traces[0]
        rep.sample({'m3_instance': t['meta']['instance'], 'options': t['meta']['opts'], 'observed_status': t['status'],
                    'observed_matching': t['matching'], 'observed_objective_values': t['objvals']}, cap=6)


def jobs_for(pid, tier, seed):
    q = tier == 'quick'
    rng = random.Random(seed + 17)
    C = fm.C
    inst = instances(seed, 3 if q else 20, 6 if q else 40)
    jobs = []
    for (label, text, na, two) in inst:
        if pid == 'C01':
            sets = [dict(), dict(pc=True), dict(crits=[C('maxsize')]), dict(pc=True, crits=[C('mincost'), C('maxsize')])]
            if two:
                sets += [dict(stab=True), dict(stab=True, pc=True, crits=[C('gen')])]
        elif pid == 'C02':
            prs = rng.sample(fm.pairs(0), 6 if q else 24) + rng.sample(fm.pairs(1), 3 if q else 12) + rng.sample(fm.triples(), 3 if q else 12)
            sets = [dict(crits=list(p)) for p in prs] + [dict(crits=list(rng.sample(fm.DEFAULT_VARIANTS, 9)))]
        elif pid == 'C03':
            sg = fm.singles()
            sets = [dict(crits=list(p)) for p in (sg if not q else rng.sample(sg, 10))]
            sets += [dict(pc=True, crits=list(p)) for p in rng.sample(sg, 3)]
            if two:
                sets += [dict(stab=True, crits=list(p)) for p in rng.sample(sg, 3)]
        elif pid == 'C04':
            sets = [dict(crits=list(p)) for p in rng.sample(fm.pairs(0), 6 if q else 20) + rng.sample(fm.triples(), 5 if q else 20)]
            sets += [dict(crits=list(p)) for p in fm.sample_lists(rng, 2 if q else 8, 9, 4)]
            if two:
                sets += [dict(stab=True, crits=list(p)) for p in rng.sample(fm.pairs(0), 2)]
        elif pid == 'C05':
            if not two:
                continue
            sets = [dict(stab=True), dict(stab=True, crits=[C('maxsize')]), dict(stab=True, crits=[C('minsize')]),
                    dict(stab=True, pc=True, crits=[C('maxsize'), C('mincost', 1, 1)]), dict(stab=True, crits=[C('gre'), C('lsb')])]
        else:
            raise KeyError(pid)
        # admissibility of cut-offs depends on the instance: keep default cut-offs for generous on real files
        for osx in sets:
            cr = []
            for c in osx.get('crits', []):
                if c['c'] == 'gen' and c['x']:
                    c = C('gen')
                cr.append(c)
            osx = dict(osx, crits=cr)
            jobs.append((label, text, na, two, osx))
    return jobs


# ---------------------------------------------------------------------------
# Archive traces: the result files shipped under Evaluations/ (older output format)
def archive_traces():
    from . import restext
    out = []
    for d, na, _two in EVAL:
        base = os.path.join(common.REPO, 'Evaluations', d)
        for sub in sorted(os.listdir(base)):
            if sub == 'instances':
                continue
            for f in sorted(glob.glob(os.path.join(base, sub, '*.txt'))):
                inst = os.path.join(base, 'instances', os.path.basename(f))
                if not os.path.exists(inst):
                    continue
                txt = open(f).read()
                p = restext.parse_results(txt)
                cons = ' '.join(p.get('constraints', []))
                bf = any(k.startswith('optimal_') for k in p['keys']) or bool(p.get('bf_infeasible'))
                if bf:
                    pc = sub.endswith('_pc')
                    crits, stab = [], False
                else:
                    pc = 'project closures' in cons
                    stab = 'stability' in cons
                    if any(n.startswith('?') for n in p['optimisations']):
                        continue
                    crits = [fm.C(n) for n in p['optimisations']]
                one = lambda k: (p.get(k) or [None])[0] if isinstance(p.get(k), list) else p.get(k)
                t = {'text': list(open(inst, 'rb').read()), 'na': na, 'twopl': bool(stab), 'pc': pc, 'stab': stab, 'bf': bf,
                     'crits': crits, 'construct': 'ok', 'exception': '', 'loaded': {}, 'status': p.get('pulp_status', ''),
                     'matching': p.get('matching', []), 'objvals': [], 'stabline': p.get('stability_correct', ''), 'archive': True,
                     'stats': {'cost': one('cost'), 'cost_sq': one('cost_sq'), 'degree': p.get('degree'), 'profile': p.get('profile'),
                               'max_lec_abs_diff': p.get('max_lec_abs_diff'), 'sum_lec_abs_diff': p.get('sum_lec_abs_diff')} if not bf else {},
                     'bfres': ({'feasible': True, 'size': p.get('optimal_size'), 'cost': one('optimal_maxsizemincost'),
                                'deg': p.get('optimal_maxsizemindegree'), 'sq': one('optimal_maxsizeminsqcost'),
                                'gen': p.get('optimal_generousmaxprofile'), 'gremax': p.get('optimal_greedymaxprofile'),
                                'gre': p.get('optimal_greedyprofile'), 'mx': p.get('optimal_max_lec_abs_diff'),
                                'sm': p.get('optimal_sum_lec_abs_diff')} if bf and not p.get('bf_infeasible') else {'feasible': False}),
                     'meta': {'instance': 'Evaluations/%s/%s/%s (archived result file)' % (d, sub, os.path.basename(f)),
                              'opts': {'pc': pc, 'stab': stab, 'bf': bf, 'crits': [c['c'] for c in crits]}}}
                out.append(t)
    return out


def run_archive(rep, pid, want_bf):
    """Validates the archived result files with Trace_Pipe (growth: the
    specification agrees with the results the authors published)."""
    traces = [t for t in archive_traces() if t['bf'] == want_bf]
    if not traces:
        return
    verdicts, st = pipedrive.validate(traces, pid, label='Trace_Pipe: archived Evaluations results', chunks=8, workers=2)
    rep.add_tlc(tlc.stats_of(st))
    for t, v in zip(traces, verdicts):
        rep.traces += 1
        ok = not v['fails']
        rep.clause('X.archived_result_agrees_with_spec', ok, key=t['meta']['instance'],
                   what='%s: clauses %s fail' % (t['meta']['instance'], v['fails']), own=False)
    rep.notes.append('archived Evaluations result files validated by Trace_Pipe.tla: %d (%s)' % (len(traces), 'brute force' if want_bf else 'LP'))
