"""check <property id> [--tier quick|thorough] [--replay path]"""
import argparse
import importlib
import sys
import traceback

from . import common


def replay_file(pid, path):
    """Re-runs exactly the behaviour stored in a replay file against the current
    tree and prints the verdict of every clause of property `pid` on it."""
    import json
    from . import impl
    impl.ensure_repo()
    rp = json.load(open(path))
    case = rp.get('case') or {}
    beh = case.get('behaviour')
    print('replaying %s clause=%s' % (rp.get('property'), rp.get('clause')))
    print('recorded observation: %s' % str(rp.get('what'))[:500])
    if beh is None:
        print('this replay file carries its case verbatim (no single behaviour to re-run):')
        print(json.dumps(case)[:2000])
        return 1
    kind = beh.get('kind')
    if kind == 'lp':
        from . import solverplay
        fn = solverplay.replay_lp
    elif kind == 'bf':
        from . import c07
        fn = c07.replay_bf
    elif kind == 'checker':
        from . import c06
        fn = c06.replay_checker
    elif kind == 'fault':
        from . import c14
        fn = c14.replay_fault
    elif kind == 'hist':
        from . import c18
        fn = c18.replay_hist
    elif 'refused' in beh and 'order' in beh:
        from . import c16
        fn = c16.replay_opts
    else:
        print(json.dumps(case)[:2000])
        return 1
    results, info = fn('EXPORT', beh)
    bad = 0
    for (name, ok, key, what, c2, prop) in results:
        own = prop is True or prop == pid
        if own and not ok:
            bad += 1
            print('FAILS  %s: %s' % (name, str(what)[:400]))
    print('%d clause(s) of %s fail on this behaviour now' % (bad, pid))
    if bad:
        print('VIOLATION property=%s replay=%s' % (pid, path))
    return 1 if bad else 0


def main():
    ap = argparse.ArgumentParser()
    ap.add_argument('pid')
    ap.add_argument('--tier', default=None)
    ap.add_argument('--replay', default=None)
    a = ap.parse_args()
    tier, seed = common.tier_and_seed(a.tier)
    pid = a.pid.upper()
    try:
        mod = importlib.import_module('harness.' + pid.lower())
    except ImportError:
        traceback.print_exc()
        common.machinery_exit(pid, 'no check module for this property')
    common.scratch()
    try:
        if a.replay:
            rc = replay_file(pid, a.replay)
        else:
            rc = mod.main(tier, seed)
    except common.MachineryError as e:
        common.machinery_exit(pid, str(e))
    except SystemExit:
        raise
    except Exception:
        traceback.print_exc()
        common.machinery_exit(pid, 'unexpected exception in the harness')
    sys.exit(rc)


if __name__ == '__main__':
    main()
