"""check <property id> [--tier quick|thorough] [--replay path]"""
import argparse
import importlib
import sys
import traceback

from . import common


def main():
    ap = argparse.ArgumentParser()
    ap.add_argument('pid')
    ap.add_argument('--tier', default=None)
    ap.add_argument('--replay', default=None)
    a = ap.parse_args()
    tier, seed = common.tier_and_seed(a.tier)
    pid = a.pid.upper()
    try:
        mod = importlib.import_module('harness.' + pid.lower())
    except ImportError:
        traceback.print_exc()
        common.machinery_exit(pid, 'no check module for this property')
    common.scratch()
    try:
        if a.replay:
            rc = mod.replay_file(a.replay, tier, seed)
        else:
            rc = mod.main(tier, seed)
    except common.MachineryError as e:
        common.machinery_exit(pid, str(e))
    except SystemExit:
        raise
    except Exception:
        traceback.print_exc()
        common.machinery_exit(pid, 'unexpected exception in the harness')
    sys.exit(rc)


if __name__ == '__main__':
    main()
