"""Observation and control at the pulp boundary (no repository hook needed).

 * interception of pulp.apis.coin_api.COIN_CMD.actualSolve - the deepest Python
   call on the way to CBC, reached from LpProblem.solve(solver);
 * alpha: exact projection of the problem handed to the back end (ipenum);
 * an adversarial stand-in for CBC that can return any optimal solution;
 * injected solver outcomes (C14) and a virtual clock.
"""
import contextlib
import datetime as _real_datetime
import random

from . import common, impl, ipenum


class VirtualClock:
    """Replaces the `datetime` module object inside matchingproblems.solver.solver."""

    def __init__(self, start=None):
        self.t = 0.0
        self.base = start or _real_datetime.datetime(2026, 1, 1, 12, 0, 0)
        outer = self

        class _DT:
            @staticmethod
            def now(tz=None):
                return outer.base + _real_datetime.timedelta(seconds=outer.t)
        self.datetime = _DT
        self.timedelta = _real_datetime.timedelta

    def advance(self, s):
        self.t += s


def pair_layout(model):
    """[(student_index, projectID, var name)] in row order, from documented attributes."""
    out = []
    for i, row in enumerate(model.pairs):
        for p in row:
            out.append((i, int(p.projectID), p.lp_var.name))
    return out


def point_to_mline(layout, ns, point):
    """0/1 point over the pair variables -> matching line, or None if some
    student has two projects (not a matching at all)."""
    m = [0] * ns
    for (s, pid, _), v in zip(layout, point):
        if v:
            if m[s]:
                return None
            m[s] = pid
    return m


class Recorder:
    def __init__(self, mode='standin', chooser=None, plan=None, clock=None, seed=0,
                 values_on_fault='zeros', durations=None, enumerate_cbc=True, keep_sets=True,
                 max_set=4096):
        self.mode = mode                  # 'standin' | 'cbc'
        self.chooser = chooser            # f(k, n_optimal) -> index
        self.plan = plan or {}            # k -> outcome name (C14)
        self.clock = clock
        self.rng = random.Random(seed)
        self.values_on_fault = values_on_fault
        self.durations = durations or {}
        self.enumerate_cbc = enumerate_cbc
        self.keep_sets = keep_sets
        self.max_set = max_set
        self.events = []
        self.solver = None                # the repository's Solver object
        self.timeLimit_seen = []
        self.kwargs_seen = []

    # called by the patched actualSolve
    def on_solve(self, cbc, lp, orig, kw):
        import pulp
        k = len(self.events) + 1
        model = self.solver.model
        layout = pair_layout(model)
        names = [n for (_, _, n) in layout]
        ev = {'k': k, 'timeLimit': getattr(cbc, 'timeLimit', None), 'msg': getattr(cbc, 'msg', None),
              'threads': (getattr(cbc, 'optionsDict', None) or {}).get('threads', getattr(cbc, 'threads', None)), 'nvars': None}
        self.events.append(ev)
        res = None
        if self.mode == 'standin' or self.enumerate_cbc:
            try:
                ip = ipenum.IP(lp)
                res = ip.solve(names)
                ev['nvars'] = len(ip.names)
            except ipenum.DuplicateNames as e:
                ev['dupnames'] = e.names
                if self.mode == 'standin':
                    # what a file based back end does with two columns of one name
                    raise pulp.PulpSolverError('duplicate variable names: %s' % e.names)
        if res is not None:
            ns = model.num_students
            feas = [res.full_point(p) for p in res.feasible]
            ev['nF'] = len(feas)
            ev['opt'] = res.objective_value()
            ev['nOpt'] = len(res.optimal)
            if self.keep_sets and len(feas) <= self.max_set:
                ev['F'] = [point_to_mline(layout, ns, p) or {'raw': list(p)} for p in feas]
                ev['Fopt'] = [point_to_mline(layout, ns, res.full_point(p)) or {'raw': list(p)} for p in res.optimal]
        outcome = self.plan.get(k)
        dur = self.durations.get(k, 0.0)
        if self.clock is not None and dur:
            self.clock.advance(dur)
        if self.mode == 'cbc' and outcome is None:
            status = orig(cbc, lp, **kw)
            ev['status'] = pulp.LpStatus[status]
            ev['x'] = point_to_mline(layout, model.num_students,
                                     [1 if (v.varValue or 0) > 0.5 else 0 for v in (p.lp_var for row in model.pairs for p in row)])
            try:
                ev['objval'] = None if lp.objective is None else pulp.value(lp.objective)
            except Exception:  # noqa
                ev['objval'] = None
            if res is not None:
                ev['agree_status'] = (ev['status'] == 'Optimal') == (res.best is not None)
                if res.best is not None and ev['objval'] is not None and ev['status'] == 'Optimal':
                    ev['agree_opt'] = abs(ev['objval'] - res.objective_value()) < 1e-6
            return status
        # stand-in / injected outcome
        allvars = lp.variables()
        if outcome == 'TimeLimitIncumbent' and res is not None and not res.feasible:
            outcome = None          # no incumbent can exist on an infeasible problem: natural outcome (as in the specification)
        if outcome is not None:
            ev['injected'] = outcome
            code, sol = {
                'Infeasible': (pulp.LpStatusInfeasible, pulp.LpSolutionInfeasible),
                'Unbounded': (pulp.LpStatusUnbounded, pulp.LpSolutionUnbounded),
                'Undefined': (pulp.LpStatusUndefined, pulp.LpSolutionNoSolutionFound),
                'Not Solved': (pulp.LpStatusNotSolved, pulp.LpSolutionNoSolutionFound),
                # time-limit stop with an incumbent: PuLP reports Optimal / feasible
                'TimeLimitIncumbent': (pulp.LpStatusOptimal, pulp.LpSolutionIntegerFeasible),
            }[outcome]
            if outcome == 'TimeLimitIncumbent' and res is not None and res.feasible:
                # any feasible (not necessarily optimal) point
                p = res.feasible[self.rng.randrange(len(res.feasible))]
                vals = res.assignment(p)
                lp.assignVarsVals({n: float(v) for n, v in vals.items()})
                ev['x'] = point_to_mline(layout, model.num_students, res.full_point(p))
            elif self.values_on_fault == 'zeros':
                lp.assignVarsVals({v.name: 0.0 for v in allvars})
            elif self.values_on_fault == 'ones':
                # "all first choices": a back end may leave anything behind
                vals = {v.name: 0.0 for v in allvars}
                for row in model.pairs:
                    if row:
                        vals[row[0].lp_var.name] = 1.0
                lp.assignVarsVals(vals)
            # 'stale': leave whatever the previous solve left
            lp.assignStatus(code, sol)
            ev['status'] = pulp.LpStatus[code]
            return code
        if res.best is None:
            lp.assignVarsVals({v.name: 0.0 for v in allvars})
            lp.assignStatus(pulp.LpStatusInfeasible, pulp.LpSolutionInfeasible)
            ev['status'] = 'Infeasible'
            return pulp.LpStatusInfeasible
        n = len(res.optimal)
        j = self.chooser(k, n) if self.chooser else self.rng.randrange(n)
        j = j % n
        ev['choice'] = j
        p = res.optimal[j]
        vals = res.assignment(p)
        lp.assignVarsVals({nm: float(v) for nm, v in vals.items()})
        lp.assignStatus(pulp.LpStatusOptimal, pulp.LpSolutionOptimal)
        ev['status'] = 'Optimal'
        ev['x'] = point_to_mline(layout, model.num_students, res.full_point(p))
        return pulp.LpStatusOptimal


_active = [None]
_orig = [None]


def _install():
    impl.ensure_repo()
    import pulp.apis.coin_api as ca
    if _orig[0] is None:
        _orig[0] = ca.COIN_CMD.actualSolve

        def actualSolve(self, lp, **kw):
            rec = _active[0]
            if rec is None:
                return _orig[0](self, lp, **kw)
            return rec.on_solve(self, lp, _orig[0], kw)
        ca.COIN_CMD.actualSolve = actualSolve


@contextlib.contextmanager
def observing(rec, solver):
    """All solves of `solver` inside the block go through `rec`."""
    _install()
    import matchingproblems.solver.solver as sm
    rec.solver = solver
    prev = _active[0]
    _active[0] = rec
    old_dt = sm.datetime
    if rec.clock is not None:
        sm.datetime = rec.clock
    try:
        yield rec
    finally:
        _active[0] = prev
        sm.datetime = old_dt


def final_alpha(solver):
    """alpha of the problem as it stands after the run (all freezes applied)."""
    prob = getattr(getattr(solver, 'solver', None), 'prob', None)
    if prob is None:
        return None
    layout = pair_layout(solver.model)
    res = ipenum.IP(prob).solve([n for (_, _, n) in layout])
    return [point_to_mline(layout, solver.model.num_students, res.full_point(p)) or {'raw': list(p)} for p in res.feasible]
