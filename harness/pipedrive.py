"""Recording complete runs of the real solver (real CBC) as traces for
Trace_Pipe.tla, and validating batches of them."""
import json
import os
import random

from . import common, impl, observe, restext, solverplay, tlc

BFMAP = [('optimal_size', 'size'), ('optimal_maxsizemincost', 'cost'), ('optimal_maxsizemindegree', 'deg'),
         ('optimal_maxsizeminsqcost', 'sq'), ('optimal_generousmaxprofile', 'gen'),
         ('optimal_greedymaxprofile', 'gremax'), ('optimal_greedyprofile', 'gre'),
         ('optimal_max_lec_abs_diff', 'mx'), ('optimal_sum_lec_abs_diff', 'sm')]


def record_run(text_codes, na, twopl, pc=False, stab=False, bf=False, crits=(), enumerate_cbc=False, loadonly=False):
    """One execution of the real solver with the real CBC -> trace dict."""
    impl.ensure_repo()
    o = {'na': na, 'twopl': twopl, 'pc': pc, 'stab': stab, 'bf': bf,
         'flags': [{'c': c['c'], 'pos': i + 1, 'x': list(c['x'])} for i, c in enumerate(crits)]}
    path = impl.write_text(text_codes)
    t = {'text': list(text_codes), 'na': na, 'twopl': twopl, 'pc': pc, 'stab': stab, 'bf': bf,
         'crits': [{'c': c['c'], 'x': list(c['x'])} for c in crits],
         'construct': 'ok', 'exception': '', 'loaded': {}, 'status': '', 'matching': [], 'objvals': [], 'stabline': '',
         'stats': {}, 'bfres': {'feasible': False}, 'agree': [], 'archive': False, 'loadonly': bool(loadonly)}
    try:
        if loadonly:
            st, S = impl.construct_solver(solverplay.argv_of(o, path))
            if st != 'ok':
                t['construct'] = '%s %s' % (st, S)
                return t
            li = impl.loaded_instance(S)
            li.pop('_pairinfo')
            t['loaded'] = li
            return t
        r = solverplay.run_once(solverplay.argv_of(o, path), mode='cbc', getters=('results',) if bf else ('short',),
                                enumerate_cbc=enumerate_cbc, keep_sets=False)
        st, S = r['construct']
        if st != 'ok':
            t['construct'] = '%s %s' % (st, S)
            return t
        S = r['solver']
        li = impl.loaded_instance(S)
        li.pop('_pairinfo')
        t['loaded'] = li
        if r['exc'] is not None:
            t['exception'] = r['exc']
            return t
        if bf:
            txt = r['texts'].get('results')
            if txt is None:
                t['exception'] = str(r.get('getter_exc'))
                return t
            p = restext.parse_results(txt)
            if p.get('bf_infeasible'):
                t['bfres'] = {'feasible': False}
            else:
                t['bfres'] = dict({'feasible': True}, **{f: p.get(l) for l, f in BFMAP})
            return t
        t['status'] = S.model.pulp_status
        t['objvals'] = [abs(int(round(e['objval']))) if e.get('objval') is not None else 0 for e in r['events']]
        t['agree'] = [(e.get('agree_status'), e.get('agree_opt')) for e in r['events'] if 'agree_status' in e]
        txt = r['texts'].get('short')
        if txt is None:
            t['exception'] = 'getter: %s' % r.get('getter_exc')
            return t
        p = restext.parse_results(txt)
        if 'matching' in p:
            t['matching'] = p['matching']
            t['stabline'] = p.get('stability_correct', '')
            t['stats'] = {'matching': p.get('matching'), 'size': p.get('size'), 'cost': p.get('cost'), 'cost_sq': p.get('cost_sq'),
                          'degree': p.get('degree'), 'profile': p.get('profile'),
                          'max_lec_abs_diff': p.get('max_lec_abs_diff'), 'sum_lec_abs_diff': p.get('sum_lec_abs_diff')}
        return t
    finally:
        try:
            os.unlink(path)
        except OSError:
            pass


def _validate_chunk(args):
    pid, label, offset, traces, workers = args
    d = common.subdir('traces-%d' % os.getpid())
    path = os.path.join(d, 'pipe-%d.json' % random.getrandbits(40))
    with open(path, 'w') as f:
        json.dump(traces, f)
    verdicts = {}

    def on_export(tag, rec):
        verdicts[rec['tid']] = rec
    res = tlc.run('Trace_Pipe', spec='PSpec', invariants=['Verdict'], tags=('VERDICT',), on_export=on_export,
                  env={'TRACE_FILE': path}, label=label, timeout=3000, workers=workers)
    os.unlink(path)
    keep = res.get('lines', [])[-30:]
    res = dict(res)
    res['lines'] = keep
    return offset, verdicts, res


def validate(traces, pid, label='Trace_Pipe', chunks=4, workers=4):
    if not traces:
        return [], None
    import concurrent.futures as cf
    def nn(x):      # TLC's Json module has no null
        if x is None:
            return -1
        if isinstance(x, dict):
            return {k: nn(v) for k, v in x.items()}
        if isinstance(x, (list, tuple)):
            return [nn(v) for v in x]
        return x
    slim = [nn(dict({k: v for k, v in t.items() if k not in ('agree', 'meta')}, loadonly=bool(t.get('loadonly')))) for t in traces]
    nchunks = max(1, min(chunks, len(slim) // 20 + 1))
    size = -(-len(slim) // nchunks)
    jobs = [(pid, label, i, slim[i:i + size], workers) for i in range(0, len(slim), size)]
    out = [None] * len(slim)
    total = None
    with cf.ThreadPoolExecutor(max_workers=nchunks) as ex:
        for offset, verdicts, res in ex.map(_validate_chunk, jobs):
            tlc.require_ok(tlc.TLCResult(res), pid)
            n = min(size, len(slim) - offset)
            if len(verdicts) != n:
                common.machinery_exit(pid, 'Trace_Pipe returned %d verdicts for %d traces' % (len(verdicts), n))
            for i in range(n):
                out[offset + i] = verdicts[i + 1]
            if total is None:
                total = tlc.TLCResult(res)
            else:
                for kk in ('generated', 'distinct', 'exports'):
                    total[kk] += res[kk]
                total['wall_s'] = max(total['wall_s'], res['wall_s'])
    total['label'] = '%s (%d traces in %d TLC processes)' % (label, len(slim), len(jobs))
    return out, total
