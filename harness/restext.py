"""Lexical parsing of the solver's result texts (key: value lines, the three
listings of the long format, the 0/1 rows of get_debug).  Nothing here knows
what the values should be."""
import re

OPT_KEYWORDS = [            # wording -> criterion; unrecognised wording disables that sub-comparison only
    ('maximising size', 'maxsize'), ('minimising size', 'minsize'),
    ('generous', 'gen'), ('greedy', 'gre'),
    ('sum of square', 'minsqcost'), ('minimising sum of ranks', 'mincost'),
    ('load max', 'lmb'), ('load sum', 'lsb'),
    ('costs with lecturer load', 'mincostlsb'),
]


def _ints(s):
    return [int(x) for x in re.findall(r'-?\d+', s)]


def parse_results(text):
    """Returns dict with whatever is present."""
    out = {'optimisations': [], 'keys': []}
    section = None
    for raw in text.split('\n'):
        line = raw.strip()
        if not line:
            continue
        if line.startswith('- optimisation:'):
            w = line[len('- optimisation:'):].strip()
            name = None
            for kw, nm in OPT_KEYWORDS:
                if kw in w:
                    name = nm
                    break
            out['optimisations'].append(name or ('?' + w))
            continue
        if line.startswith('- '):
            out.setdefault('constraints', []).append(line[2:])
            continue
        if line.startswith('#'):
            continue
        if line in ('Student_assignments:', 'Project_assignments:', 'Lecturer_assignments:'):
            section = line[:-1]
            out[section] = []
            continue
        if line == 'Infeasible':
            out['bf_infeasible'] = True
            continue
        if section == 'Student_assignments' and re.match(r's_\d+', line):
            m = re.match(r's_(\d+): p_(\d+) \(l_(\d+)\)$', line)
            if m:
                out[section].append({'s': int(m.group(1)), 'p': int(m.group(2)), 'l': int(m.group(3))})
            else:
                m = re.match(r's_(\d+) no assignment$', line)
                out[section].append({'s': int(m.group(1)), 'p': 0, 'l': 0} if m else {'bad': line})
            continue
        if section == 'Project_assignments' and re.match(r'p_\d+', line):
            m = re.match(r'p_(\d+) \(l_(\d+)\): (.*?)\s+(\d+)/(\d+)$', line)
            if m:
                who = [int(x) for x in re.findall(r's_(\d+)', m.group(3))]
                out[section].append({'p': int(m.group(1)), 'l': int(m.group(2)), 'who': who,
                                     'none': 'no assignment' in m.group(3),
                                     'n': int(m.group(4)), 'cap': int(m.group(5))})
            else:
                out[section].append({'bad': line})
            continue
        if section == 'Lecturer_assignments' and re.match(r'l_\d+', line):
            m = re.match(r'l_(\d+): (.*?)\s+(\d+)/(\d+) \((\d+)\)$', line)
            if m:
                who = [(int(a), int(b)) for a, b in re.findall(r's_(\d+) \(p_(\d+)\)', m.group(2))]
                out[section].append({'l': int(m.group(1)), 'who': who, 'none': 'no assignment' in m.group(2),
                                     'n': int(m.group(3)), 'cap': int(m.group(4)), 'target': int(m.group(5))})
            else:
                out[section].append({'bad': line})
            continue
        m = re.match(r'([A-Za-z_]+): ?(.*)$', line)
        if not m:
            out.setdefault('other', []).append(line)
            continue
        key, val = m.group(1), m.group(2).strip()
        out['keys'].append(key)
        if key == 'matching':
            out[key] = _ints(val)
        elif key in ('size', 'degree', 'max_lec_abs_diff', 'sum_lec_abs_diff', 'optimal_size',
                     'optimal_maxsizemindegree', 'optimal_max_lec_abs_diff', 'optimal_sum_lec_abs_diff'):
            try:
                out[key] = int(val)
            except ValueError:
                out[key] = val
        elif key in ('cost', 'cost_sq', 'optimal_maxsizemincost', 'optimal_maxsizeminsqcost'):
            out[key] = _ints(val)
        elif key in ('profile', 'optimal_generousmaxprofile', 'optimal_greedymaxprofile', 'optimal_greedyprofile'):
            out[key] = _ints(val)
        elif key == 'Timeout':
            out['timeout'] = val
        elif key == 'stability_correct':
            out[key] = val
        else:
            out[key] = val
    return out


MATCHING_KEYS = ('matching', 'size', 'cost', 'cost_sq', 'degree', 'profile', 'max_lec_abs_diff',
                 'sum_lec_abs_diff', 'Student_assignments', 'Project_assignments', 'Lecturer_assignments',
                 'stability_correct')


def mask_volatile(text):
    """date header and timing lines are not part of any property"""
    out = []
    for l in text.split('\n'):
        if l.startswith('# Results for the run conducted on') or l.startswith('time_'):
            continue
        out.append(l)
    return '\n'.join(out)


def parse_debug(text):
    """get_debug(): one 0/1 row per student (possibly empty), optional closure
    row, then the instance block (one line of pairs per student)."""
    rows, closures, pairs = [], None, []
    mode = None
    lines = text.split('\n')
    i = 0
    while i < len(lines):
        s = lines[i].strip()
        if s.startswith('Main lp decision variables'):
            mode = 'x'
        elif s.startswith('Project closure variables'):
            mode = 'c'
        elif s.startswith('Model instance information'):
            mode = 'i'
        elif mode == 'x':
            if re.fullmatch(r'[01 ]*', s):
                rows.append([int(x) for x in s.split()])
        elif mode == 'c':
            if s and re.fullmatch(r'[01 ]+', s):
                closures = [int(x) for x in s.split()]
        elif mode == 'i':
            row = []
            for m in re.finditer(r'\(s(\d+) p(\d+) rs(\d+) l(\d+)(?: rl(\d+))?\)', s):
                row.append({'s': int(m.group(1)), 'p': int(m.group(2)), 'rs': int(m.group(3)),
                            'l': int(m.group(4)), 'rl': int(m.group(5)) if m.group(5) else None})
            pairs.append(row)
        i += 1
    return {'rows': rows, 'closures': closures, 'pairs': pairs}
