"""Replay of solver behaviours exported by MC_Solver (M2) into the real code.

Every comparison is a named clause attributed to exactly one property; the
check of property P fails only on clauses attributed to P (the others are kept
in the evidence as diagnostics).
"""
import os

from . import common, impl, observe, restext

FLAG = {'maxsize': '-maxsize', 'minsize': '-minsize', 'gen': '-gen', 'gre': '-gre', 'mincost': '-mincost',
        'minsqcost': '-minsqcost', 'lmb': '-lmb', 'lsb': '-lsb', 'mincostlsb': '-mincostlsb'}
ENUM2NAME = {'MAXSIZE': 'maxsize', 'MINSIZE': 'minsize', 'GENEROUS': 'gen', 'GREEDY': 'gre', 'MINCOST': 'mincost',
             'MINSQCOST': 'minsqcost', 'LOADMAXBAL': 'lmb', 'LOADSUMBAL': 'lsb', 'MINCOSTLSB': 'mincostlsb'}


def argv_of(o, path, names=None):
    """names: spelling of the options as exported by the specification (MC_Options); default short names"""
    fx = (names or {}).get('fixed') or {}
    a = [fx.get('f', '-f'), path, fx.get('na', '-na'), str(o['na'])]
    if o['twopl']:
        a.append(fx.get('twopl', '-twopl'))
    if o['pc']:
        a.append('-pc')
    if o['stab']:
        a.append(fx.get('stab', '-stab'))
    if o.get('bf'):
        a.append('-bf')
    for i, f in enumerate(o['flags']):
        a.append(names['flags'][i] if names and names.get('flags') else FLAG[f['c']])
        a.append(str(f['pos']))
        a.extend(str(x) for x in f['x'])
    return a


def short_key(rec):
    o = rec['o']
    return 'na=%d twopl=%d pc=%d stab=%d bf=%d flags=%s file=%r' % (
        o['na'], o['twopl'], o['pc'], o['stab'], int(o.get('bf', False)),
        ' '.join('%s@%s%s' % (f['c'], f['pos'], f['x'] or '') for f in o['flags']),
        bytes(o['text']).decode('latin-1'))


class Clauses:
    def __init__(self, rec):
        self.out = []
        self.key = short_key(rec)
        self.rec = rec

    def add(self, prop, name, ok, what=''):
        ok = bool(ok)
        case = None
        if not ok:
            case = {'behaviour': self.rec, 'observed': what}
        self.out.append((name, ok, self.key + ' | ' + name, str(what)[:600], case, prop))
        return ok


def compare_loaded(cl, got, exp):
    """C10 clauses: instance as loaded vs the instance the file denotes.  Total: an instance of another shape than the
    denoted one (other counts, shorter tables) is a verdict, never an exception of the harness."""
    try:
        _compare_loaded(cl, got, exp)
    except (IndexError, KeyError, TypeError) as e:
        cl.add('C10', 'loaded_instance_has_the_denoted_shape', False,
               'comparison not possible (%s: %s): loaded counts %s, file denotes %s'
               % (type(e).__name__, e, (got.get('ns'), got.get('np'), got.get('nl')), (exp.get('ns'), exp.get('np'), exp.get('nl'))))


def _compare_loaded(cl, got, exp):
    cl.add('C10', 'counts', (got['ns'], got['np'], got['nl']) == (exp['ns'], exp['np'], exp['nl']),
           'loaded counts %s, file denotes %s' % ((got['ns'], got['np'], got['nl']), (exp['ns'], exp['np'], exp['nl'])))
    cl.add('C10', 'pairs_order_and_ranks', got['prefs'] == exp['prefs'] and got['ranks'] == exp['ranks'],
           'loaded prefs/ranks %s %s, denoted %s %s' % (got['prefs'], got['ranks'], exp['prefs'], exp['ranks']))
    cl.add('C10', 'quotas_targets',
           all(got[k] == exp[k] for k in ('plq', 'puq', 'llq', 'lt', 'luq')),
           'loaded %s, denoted %s' % ({k: got[k] for k in ('plq', 'puq', 'llq', 'lt', 'luq')},
                                      {k: exp[k] for k in ('plq', 'puq', 'llq', 'lt', 'luq')}))
    cl.add('C10', 'project_lecturer', got['plec'] == exp['plec'] and
           all(l == exp['plec'][p - 1] for (_, p, l) in got['_pairinfo']),
           'loaded plec %s, denoted %s' % (got['plec'], exp['plec']))
    if exp['two']:
        # only ranks of acceptable (lecturer, student) combinations are observable
        ok = True
        for l in range(exp['nl']):
            for s in range(exp['ns']):
                # (total: an instance loaded with other counts than the file denotes has a table of another shape)
                if l >= len(got['lrank']) or s >= len(got['lrank'][l]) or exp['lrank'][l][s] != got['lrank'][l][s]:
                    ok = False
        cl.add('C10', 'lecturer_ranks', ok, 'loaded lrank %s, denoted %s' % (got['lrank'], exp['lrank']))
    else:
        cl.add('C10', 'lecturer_cost_zero_one_sided', not got['two'],
               'lecturer ranks present without -twopl: %s' % (got['lrank'],))


def run_once(argv, chooser=None, seed=0, getters=('short', 'long'), mode='standin', timeLimit=None, presolve=False, postsolve=False, prerun=None, **kw):
    """Fresh Solver, one solve under observation (the virtual clock, if any, is
    already in place when the Solver is constructed).  Returns dict."""
    rec = observe.Recorder(mode=mode, chooser=chooser, seed=seed, **kw)
    r = {'construct': None, 'events': [], 'exc': None, 'texts': {}, 'solver': None, 'rec': rec}
    with observe.observing(rec, None):
        st, S = impl.construct_solver(argv)
        r['construct'] = (st, S if st != 'ok' else None)
        if st != 'ok':
            return r
        r['solver'] = S
        rec.solver = S
        if prerun is not None:
            # an EARLIER run with its own outcome plan, durations and time limit, then every results getter (MC_Runs)
            pre = observe.Recorder(mode='standin', seed=seed + 3, keep_sets=False, clock=rec.clock, plan=prerun.get('plan'),
                                   durations=prerun.get('durations'), values_on_fault=kw.get('values_on_fault', 'zeros'))
            pre.solver = S
            observe._active[0] = pre
            try:
                with impl.quiet():
                    S.solve() if prerun.get('timeLimit') is None else S.solve(timeLimit=prerun['timeLimit'])
                r['pre_events'] = pre.events
                r['pre_texts'] = {}
                for g, fn in (('results', S.get_results), ('short', S.get_results_short), ('long', S.get_results_long)):
                    r['pre_texts'][g] = fn()
            except BaseException as e:  # noqa
                r['pre_exc'] = '%s: %s' % (type(e).__name__, e)
            finally:
                observe._active[0] = rec
        if presolve:
            # a healthy solve and one call of every getter BEFORE the observed run (same object)
            pre = observe.Recorder(mode='standin', seed=seed + 1, keep_sets=False, clock=rec.clock)
            pre.solver = S
            observe._active[0] = pre
            try:
                with impl.quiet():
                    S.solve() if timeLimit is None else S.solve(timeLimit=timeLimit)
                for fn in (S.get_results, S.get_results_short, S.get_results_long):
                    fn()
            except BaseException as e:  # noqa
                r['pre_exc'] = '%s: %s' % (type(e).__name__, e)
            finally:
                observe._active[0] = rec
        try:
            with impl.quiet():
                if timeLimit is None:
                    S.solve()
                else:
                    S.solve(timeLimit=timeLimit)
        except BaseException as e:  # noqa
            r['exc'] = '%s: %s' % (type(e).__name__, e)
        r['events'] = rec.events
        for g in getters:
            try:
                fn = {'short': S.get_results_short, 'long': S.get_results_long, 'results': S.get_results,
                      'debug': S.get_debug}[g]
                r['texts'][g] = fn()
            except BaseException as e:  # noqa
                r['texts'][g] = None
                r.setdefault('getter_exc', {})[g] = '%s: %s' % (type(e).__name__, e)
        if postsolve:
            # a healthy solve on the same object AFTER the observed run (recovery), no time limit
            post = observe.Recorder(mode='standin', seed=seed + 2, keep_sets=False, clock=rec.clock)
            post.solver = S
            observe._active[0] = post
            try:
                with impl.quiet():
                    S.solve()
                r['post_texts'] = {'short': S.get_results_short(), 'long': S.get_results_long()}
            except BaseException as e:  # noqa
                r['post_exc'] = '%s: %s' % (type(e).__name__, e)
            finally:
                observe._active[0] = rec
    return r


def compare_report(cl, parsed, rep, inst, kind, stab):
    """C11 clauses for one printed result against the specification's report."""
    st = rep['stats']
    p = 'C11'
    sfx = '_' + kind
    cl.add(p, 'matching_line' + sfx, parsed.get('matching') == st['matching'],
           'printed %s, solver point %s' % (parsed.get('matching'), st['matching']))
    cl.add(p, 'size' + sfx, parsed.get('size') == st['size'], 'printed %s, spec %s' % (parsed.get('size'), st['size']))
    cl.add(p, 'cost' + sfx, parsed.get('cost') == st['cost'], 'printed %s, spec %s' % (parsed.get('cost'), st['cost']))
    cl.add(p, 'cost_sq' + sfx, parsed.get('cost_sq') == st['cost_sq'],
           'printed %s, spec %s' % (parsed.get('cost_sq'), st['cost_sq']))
    cl.add(p, 'degree' + sfx, parsed.get('degree') == st['degree'],
           'printed %s, spec %s' % (parsed.get('degree'), st['degree']))
    cl.add(p, 'profile' + sfx, parsed.get('profile') == st['profile'],
           'printed %s, spec %s' % (parsed.get('profile'), st['profile']))
    cl.add(p, 'max_lec_abs_diff' + sfx, parsed.get('max_lec_abs_diff') == st['max_lec_abs_diff'],
           'printed %s, spec %s' % (parsed.get('max_lec_abs_diff'), st['max_lec_abs_diff']))
    cl.add(p, 'sum_lec_abs_diff' + sfx, parsed.get('sum_lec_abs_diff') == st['sum_lec_abs_diff'],
           'printed %s, spec %s' % (parsed.get('sum_lec_abs_diff'), st['sum_lec_abs_diff']))
    if kind == 'long':
        L = rep['lists']
        sa = parsed.get('Student_assignments')
        exp_s = [{'s': i + 1, 'p': e['p'], 'l': e['l']} for i, e in enumerate(L['students'])]
        cl.add(p, 'student_listing', sa == exp_s, 'printed %s, spec %s' % (sa, exp_s))
        pa = parsed.get('Project_assignments')
        ok = pa is not None and len(pa) == len(L['projects'])
        if ok:
            for i, (g, e) in enumerate(zip(pa, L['projects'])):
                if 'bad' in g or g['p'] != i + 1 or g['l'] != e['l'] or sorted(g['who']) != e['who'] \
                        or g['n'] != e['n'] or g['cap'] != e['cap'] or (g['none'] != (e['n'] == 0)):
                    ok = False
        cl.add(p, 'project_listing', ok, 'printed %s, spec %s' % (pa, L['projects']))
        la = parsed.get('Lecturer_assignments')
        ok = la is not None and len(la) == len(L['lecturers'])
        if ok:
            m = st['matching']
            for i, (g, e) in enumerate(zip(la, L['lecturers'])):
                if 'bad' in g or g['l'] != i + 1 or sorted(s for s, _ in g['who']) != e['who'] \
                        or any(m[s - 1] != pj for s, pj in g['who']) \
                        or g['n'] != e['n'] or g['cap'] != e['cap'] or g['target'] != e['target'] \
                        or (g['none'] != (e['n'] == 0)):
                    ok = False
        cl.add(p, 'lecturer_listing', ok, 'printed %s, spec %s' % (la, L['lecturers']))
    if stab:
        cl.add('C06', 'stability_correct_true', parsed.get('stability_correct') == 'True',
               'stability_correct: %s on a stable matching %s' % (parsed.get('stability_correct'), st['matching']))


def mset(lst):
    return set(tuple(m) if isinstance(m, list) else ('raw',) + tuple(m['raw']) for m in lst)


def replay_load(tag, rec):
    """C10: the file rendered by TLC is loaded (nothing is solved) and the Model
    is compared with the instance the file denotes."""
    impl.ensure_repo()
    cl = Clauses(rec)
    o = rec['o']
    # every file of one worker process is written to the SAME path: the reader has to read what is there now
    path = impl.write_text(o['text'], name='instance.txt')
    info = {'hash': rec.get('_h'), 'stab': False, 'pc': False, 'two': o['twopl'], 'nF': 0, 'nF0': 0, 'nsolves': 0, 'ncrit': 0,
            'sample': {'argv': argv_of(o, '<file>')[2:], 'file': bytes(o['text']).decode('latin-1'), 'denoted': rec['inst']}}
    try:
        st, S = impl.construct_solver(argv_of(dict(o, flags=[], stab=False), path))
        if cl.add('C10', 'loads_without_error', st == 'ok', 'Solver(argv) -> %s %s' % (st, S)):
            compare_loaded(cl, impl.loaded_instance(S), rec['inst'])
        return cl.out, info
    finally:
        os.unlink(path)


def replay_lp(tag, rec):
    """One exported LP behaviour -> clause verdicts."""
    impl.ensure_repo()
    cl = Clauses(rec)
    o, inst = rec['o'], rec['inst']
    path = impl.write_text(o['text'])
    info = {'hash': rec.get('_h'), 'stab': o['stab'], 'pc': o['pc'], 'two': o['twopl'], 'nF': rec['nF'], 'nF0': rec['nF0'], 'nsolves': rec['nsolves'], 'ncrit': len(rec['crits']),
            'sample': {'argv': argv_of(o, '<file>')[2:], 'file': bytes(o['text']).decode('latin-1'),
                       'spec_status': rec['status'], 'spec_vals': rec['vals'], 'spec_nF0': rec['nF0']}}
    try:
        argv = argv_of(o, path)
        seed = hash(cl.key) & 0xffff
        r = run_once(argv, seed=seed)
        st, S = r['construct']
        if not cl.add('C02', 'construct_no_exception', st == 'ok', 'Solver(argv) -> %s %s' % (st, S)):
            return cl.out, info
        S = r['solver']
        compare_loaded(cl, impl.loaded_instance(S), inst)
        # C16: parsed order
        try:
            got = [(ENUM2NAME.get(c.name, c.name), list(x) if x else []) for (c, x) in S.options_parser.optimisation_options]
            exp = [(c['c'], list(c['x'])) for c in rec['crits']]
            cl.add('C16', 'parsed_order', got == exp, 'optimisation_options %s, spec order %s' % (got, exp))
        except Exception as e:  # noqa
            cl.add('C16', 'parsed_order', False, 'optimisation_options unreadable: %s' % e)
        multi = len(rec['crits']) > 1
        PV = 'C04' if multi else 'C03'
        cl.add('C02', 'solve_no_exception', r['exc'] is None, 'solve() raised %s' % r['exc'])
        if r['exc'] is not None:
            return cl.out, info
        ev = r['events']
        status = S.model.pulp_status
        cl.add('C02', 'status_iff_feasible', status == rec['status'],
               'pulp_status %r, spec %r (|F0|=%d)' % (status, rec['status'], rec['nF0']))
        if rec['status'] == 'Optimal':
            # diagnostic only: the number of underlying solves is not part of any statement
            cl.add('D', 'solve_count', len(ev) == rec['nsolves'],
                   '%d underlying solves, spec %d' % (len(ev), rec['nsolves']))
        F0 = mset(rec['F0']) if rec.get('F0') or rec['nF0'] == 0 else None
        # per-solve comparisons
        for e in ev:
            kk = e['k']
            if 'nF' not in e:
                continue
            if kk == 1:
                cl.add('C02', 'empty_iff_empty_1', (e['nF'] == 0) == (rec['nF0'] == 0),
                       'solve 1: problem has %d admissible points, spec |F0|=%d' % (e['nF'], rec['nF0']))
                if F0 is not None and 'F' in e:
                    a = mset(e['F'])
                    if o['stab']:
                        cl.add('C05', 'alpha0_equals_stable', a == F0,
                               'admissible set of the stability IP differs from the stable matchings: extra %s missing %s'
                               % (sorted(a - F0)[:4], sorted(F0 - a)[:4]))
                    else:
                        cl.add('C01', 'alpha0_subset_valid', a <= F0,
                               'points admitted by the IP that are not valid matchings: %s' % (sorted(a - F0)[:4],))
                        cl.add('D', 'alpha0_equals_valid', a == F0, 'extra %s missing %s' % (sorted(a - F0)[:4], sorted(F0 - a)[:4]))
            else:
                cl.add('C02', 'empty_iff_empty_k', e['nF'] > 0 or rec['status'] != 'Optimal',
                       'solve %d: problem infeasible although the spec still admits matchings' % kk)
            if kk <= len(rec['vals']) and rec['steps'] and e.get('opt') is not None:
                first_crit_steps = None
                cl.add(PV if multi else 'C03', 'optimum_value_k', abs(e['opt']) == rec['vals'][kk - 1],
                       'solve %d (%s): optimum of the actual problem %s, spec %s'
                       % (kk, rec['steps'][kk - 1], abs(e['opt']), rec['vals'][kk - 1]))
        # what may be returned at the last solve
        if ev and 'Fopt' in ev[-1] and status == 'Optimal' and rec['status'] == 'Optimal':
            last = mset(ev[-1]['Fopt'])
            if rec.get('Ffin'):
                fin = mset(rec['Ffin'])
                cl.add(PV if rec['crits'] else 'C01', 'every_returnable_is_spec_optimal', last <= fin,
                       'the back end may return %s which the spec does not allow (|spec final|=%d)'
                       % (sorted(last - fin)[:4], len(fin)))
                cl.add('D', 'final_set_equals_spec', last == fin, 'extra %s missing %s' % (sorted(last - fin)[:3], sorted(fin - last)[:3]))
            if F0 is not None:
                cl.add('C05' if o['stab'] else 'C01', 'returnable_subset_feasible', last <= F0,
                       'returnable points outside the valid%s matchings: %s' % (' stable' if o['stab'] else '', sorted(last - F0)[:4]))
        # texts of the first run
        for g in ('short', 'long'):
            t = r['texts'].get(g)
            cl.add('C02', 'getter_no_exception_' + g, t is not None, str(r.get('getter_exc', {}).get(g)))
            if o['stab']:
                cl.add('C06', 'stability_line_no_exception_' + g, t is not None, str(r.get('getter_exc', {}).get(g)))
        tshort = r['texts'].get('short')
        if tshort is not None:
            p = restext.parse_results(tshort)
            if rec['status'] != 'Optimal':
                cl.add('C02', 'no_matching_when_infeasible',
                       not any(k in p for k in restext.MATCHING_KEYS) and p.get('pulp_status') == rec['status'],
                       'result text on an infeasible run: keys %s' % p['keys'])
            else:
                cl.add('C02', 'matching_when_optimal', 'matching' in p and p.get('pulp_status') == 'Optimal',
                       'result text on a feasible run: keys %s' % p['keys'])
            # C16: reported order
            names = p['optimisations']
            if all(not n.startswith('?') for n in names) and rec['critsStarted'] >= 0:
                exp = [c['c'] for c in rec['crits']][:rec['critsStarted']]
                cl.add('C16', 'reported_order', names == exp, "'- optimisation:' lines %s, spec %s" % (names, exp))
        # forced final matchings: every report of the specification
        if status == 'Optimal' and ev and 'Fopt' in ev[-1]:
            lastopt = [tuple(m) if isinstance(m, list) else None for m in ev[-1]['Fopt']]
            K = len(ev)
            for rep in rec['reports']:
                m = tuple(rep['m'])
                if m not in lastopt:
                    continue
                j = lastopt.index(m)
                r2 = run_once(argv, chooser=lambda k, n, j=j, K=K: j if k == K else (seed % n), seed=seed)
                if r2['exc'] is not None or r2['solver'] is None:
                    cl.add('C02', 'solve_no_exception', False, 'second run raised %s' % r2['exc'])
                    continue
                if len(r2['events']) != K or r2['events'][-1].get('x') != list(m):
                    # earlier tie-breaks changed the path: only compare what was actually returned
                    pass
                x = r2['events'][-1].get('x')
                for g in ('short', 'long'):
                    t = r2['texts'].get(g)
                    if t is None:
                        cl.add('C02', 'getter_no_exception_' + g, False, str(r2.get('getter_exc', {}).get(g)))
                        if o['stab']:
                            cl.add('C06', 'stability_line_no_exception_' + g, False, str(r2.get('getter_exc', {}).get(g)))
                        continue
                    p = restext.parse_results(t)
                    if x == list(m):
                        compare_report(cl, p, rep, inst, g, o['stab'])
                    pm = p.get('matching')
                    if F0 is not None and pm is not None:
                        cl.add('C05' if o['stab'] else 'C01', 'printed_matching_feasible', tuple(pm) in F0,
                               'printed matching %s is not a valid%s matching of the instance' % (pm, ' stable' if o['stab'] else ''))
                    # criterion values recomputed from the printed matching (C03/C04): via the spec's report
                    if x == list(m) and rec['crits']:
                        pass
        return cl.out, info
    finally:
        try:
            os.unlink(path)
        except OSError:
            pass
