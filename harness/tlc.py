"""Run TLC on a module of /verif/spec with generated configuration, stream the
behaviours it exports, and return its statistics.

Export idiom (spec side):  Export == cond => PrintT("EXPORT " \\o ToJson(rec))
Each such line is a JSON string literal whose content after the tag is JSON.
"""
import glob
import itertools
import json
import os
import re
import shutil
import subprocess
import time

from . import common

_counter = itertools.count()


class Raw(str):
    """a TLA+ expression passed through verbatim"""


def tla_set(items):
    return Raw('{' + ', '.join(sorted(set(tla_value(x) for x in items))) + '}')


def tla_value(v):
    if isinstance(v, Raw):
        return str(v)
    if isinstance(v, bool):
        return 'TRUE' if v else 'FALSE'
    if isinstance(v, int):
        return str(v)
    if isinstance(v, str):
        return '"%s"' % v
    if isinstance(v, (set, frozenset)):
        return '{' + ', '.join(sorted(tla_value(x) for x in v)) + '}'
    if isinstance(v, (list, tuple)):
        return '<<' + ', '.join(tla_value(x) for x in v) + '>>'
    if isinstance(v, dict):
        return '[' + ', '.join('%s |-> %s' % (k, tla_value(x)) for k, x in v.items()) + ']'
    raise TypeError(v)


def _simple(v):
    if isinstance(v, Raw):
        return False
    def atom(x):
        return isinstance(x, (bool, str)) or (isinstance(x, int) and x >= 0)
    return atom(v) or (isinstance(v, (set, frozenset)) and all(atom(x) for x in v))


class TLCResult(dict):
    pass


def run(module, consts=None, invariants=(), spec='Spec', properties=(), constraint=None,
        action_constraint=None, postcondition=None, view=None, simulate=None, workers=None,
        timeout=1800, on_export=None, tags=('EXPORT',), env=None, coverage=False,
        deadlock=False, seed=None, extra_defs='', label=None, depth_first=False, extra_files=()):
    """Returns TLCResult(generated, distinct, depth, errors, ok, wall_s, exports, coverage...)."""
    consts = consts or {}
    n = next(_counter)
    wd = common.subdir('tlc-%d-%d' % (os.getpid(), n))
    for f in glob.glob(os.path.join(common.SPEC, '*.tla')):
        shutil.copy(f, wd)
    for f in extra_files:
        shutil.copy(os.path.join(common.SPEC, f), wd)
    root = 'Run%d_%s' % (n, module)
    defs, cfg = [], []
    cfg.append('SPECIFICATION %s' % spec)
    if consts:
        cfg.append('CONSTANTS')
        for k, v in consts.items():
            if _simple(v):
                cfg.append('  %s = %s' % (k, tla_value(v)))
            else:
                defs.append('Run_%s == %s' % (k, tla_value(v)))
                cfg.append('  %s <- Run_%s' % (k, k))
    for i in invariants:
        cfg.append('INVARIANT %s' % i)
    for p in properties:
        cfg.append('PROPERTY %s' % p)
    if constraint:
        cfg.append('CONSTRAINT %s' % constraint)
    if action_constraint:
        cfg.append('ACTION_CONSTRAINT %s' % action_constraint)
    if postcondition:
        cfg.append('POSTCONDITION %s' % postcondition)
    if view:
        cfg.append('VIEW %s' % view)
    cfg.append('CHECK_DEADLOCK %s' % ('TRUE' if deadlock else 'FALSE'))
    with open(os.path.join(wd, root + '.tla'), 'w') as f:
        f.write('---- MODULE %s ----\nEXTENDS %s\n%s\n%s\n====\n' % (root, module, '\n'.join(defs), extra_defs))
    with open(os.path.join(wd, root + '.cfg'), 'w') as f:
        f.write('\n'.join(cfg) + '\n')
    workers = workers or common.NCPU
    cmd = ['tlc', '-workers', str(workers), '-metadir', os.path.join(wd, 'meta'),
           '-noGenerateSpecTE', '-config', root + '.cfg']
    if coverage:
        cmd += ['-coverage', '1']
    if simulate:
        num, depth = simulate
        cmd += ['-simulate', 'num=%d' % num, '-depth', str(depth)]
        if seed is not None:
            cmd += ['-seed', str(seed)]
    cmd.append(root + '.tla')
    e = dict(os.environ)
    jopts = '-Djava.io.tmpdir=' + wd + ' -XX:ParallelGCThreads=4 -Xss64m'     # deep RECURSIVE operators on long lists
    if depth_first:
        jopts += ' -Dtlc2.tool.queue.IStateQueue=StateDeque'
    e['JAVA_TOOL_OPTIONS'] = jopts
    if env:
        e.update(env)
    t0 = time.time()
    res = TLCResult(module=module, label=label or module, consts={k: (v if _simple(v) and not isinstance(v, (set, frozenset)) else str(tla_value(v))[:200]) for k, v in consts.items()},
                    generated=0, distinct=0, depth=0, errors=[], exports=0, ok=False,
                    mode='simulate' if simulate else 'bfs', coverage={}, lines=[])
    proc = subprocess.Popen(['timeout', str(int(timeout))] + cmd, cwd=wd, env=e, stdout=subprocess.PIPE,
                            stderr=subprocess.STDOUT, text=True, bufsize=1 << 20)
    tagset = tuple('"%s ' % t for t in tags)
    err_block = None
    tail = []
    logf = open(os.environ['VERIF_TLC_LOG'], 'a') if os.environ.get('VERIF_TLC_LOG') else None
    for line in proc.stdout:
        if logf and not line.startswith(tagset):
            logf.write(line)
        if line.startswith(tagset):
            try:
                s = json.loads(line)
                tag, _, body = s.partition(' ')
                rec = json.loads(body)
            except Exception as ex:   # noqa
                res['errors'].append('unparsable export: %r' % line[:200])
                continue
            res['exports'] += 1
            if on_export:
                on_export(tag, rec)
            continue
        line = line.rstrip('\n')
        tail.append(line)
        if len(tail) > 400:
            del tail[:200]
        m = re.match(r'(\d+) states generated, (\d+) distinct states found', line)
        if m:
            res['generated'], res['distinct'] = int(m.group(1)), int(m.group(2))
        m = re.match(r'The depth of the complete state graph search is (\d+)', line)
        if m:
            res['depth'] = int(m.group(1))
        if 'java.lang.StackOverflowError' in line or 'java.lang.OutOfMemoryError' in line:
            # a dead worker thread leaves TLC hanging until the outer timeout: stop it now
            res['errors'].append(line[:300])
            proc.kill()
            break
        if line.startswith('Error:') or 'Exception' in line:
            if 'The behavior up to this point' not in line:
                res['errors'].append(line[:500])
        m = re.match(r'<(\w+) line \d+, col \d+ to line \d+, col \d+ of module (\w+)>: (\d+):(\d+)', line)
        if m:
            res['coverage'][m.group(1)] = {'distinct': int(m.group(3)), 'generated': int(m.group(4))}
        if 'Model checking completed. No error has been found' in line:
            res['ok'] = True
        if simulate and re.match(r'The number of states generated: (\d+)', line):
            res['generated'] = int(re.match(r'The number of states generated: (\d+)', line).group(1))
            res['distinct'] = res['generated']
    rc = proc.wait()
    res['rc'] = rc
    res['wall_s'] = round(time.time() - t0, 2)
    if simulate and rc in (0,) and not res['errors']:
        res['ok'] = True
    if simulate and res['generated'] == 0:
        for l in tail:
            m = re.search(r'(\d+) states checked', l)
            if m:
                res['generated'] = res['distinct'] = int(m.group(1))
    if rc == 124:
        res['errors'].append('TLC timed out after %ss' % timeout)
    if not res['ok']:
        res['lines'] = tail[-400:]
    shutil.rmtree(wd, ignore_errors=True)
    return res


def require_ok(res, pid):
    """An M1 failure (the specification violates its own invariants) or a TLC
    crash is a machinery failure, never a verdict about the repository."""
    if not res['ok']:
        print('\n'.join(res.get('lines', [])[-40:]))
        common.machinery_exit(pid, 'TLC run %s failed: %s' % (res['label'], res['errors'][:3]))


def stats_of(res):
    return {k: res[k] for k in ('label', 'mode', 'consts', 'generated', 'distinct', 'depth', 'exports', 'wall_s', 'coverage') if k in res}
