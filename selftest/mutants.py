#!/venv/bin/python
"""Self-test (never part of a verdict on /repo): a catalogue of small changes to
fmcooper/matchingproblems, each compiling and passing the 35 repository tests,
each expected to be reported by the check of a named property.

    selftest/mutants.py [--only m03,m07] [--tier quick]

Works in a scratch git worktree of /repo outside /repo and /verif (removed at the
end); the checks are pointed at it with VERIF_REPO.  Results are written to
selftest/mutants_result.json.
"""
import argparse
import json
import os
import shutil
import subprocess
import sys
import tempfile
import time

VERIF = os.path.dirname(os.path.dirname(os.path.abspath(__file__)))
S = 'matchingproblems/solver/'
G = 'matchingproblems/generator/'

# id: (file, old, new, [properties expected to report it], description)
M = {
 'm01': (S + 'lp_solver.py', "if (lec_pair.rank_lecturer <= aim_rank and ", "if (lec_pair.rank_lecturer < aim_rank and ",
         ['C05'], 'stability: ties no longer count as "no worse" (<= -> <)'),
 'm02': (S + 'model.py', "                    pair.rank_lecturer < worst_rank_projects[pair.project_index]):",
         "                    pair.rank_lecturer <= worst_rank_projects[pair.project_index]):",
         ['C06'], 'checker condition 3c: < -> <='),
 'm03': (S + 'lp_solver.py', "max(0, up_to_postition_inclusive - 1), -1):", "max(0, up_to_postition_inclusive), -1):",
         ['C03'], 'generous stops one rank early'),
 'm04': (G + 'generator_shared.py', "        if i < remainder:", "        if i < remainder or (remainder == 0 and n > 3 and i == n - 1 and sum_q > n):", ['C08'],
         'create_quotas gives the last of >3 agents one extra when the sum divides evenly'),
 'm05': (S + 'lp_solver.py', "            self.prob += objective_function <= objective_function.varValue",
         "            pass", ['C04'], 'minimised objectives are no longer frozen'),
 'm06': (S + 'lp_solver.py', """        self.prob += (lpSum(all_vars) == obj)
        self.perform_optimisation(obj, Optimisation_type.MINIMISE)


    def optimisation_generous""", """        self.prob += (lpSum(all_vars) == obj)
        self.perform_optimisation(obj, Optimisation_type.MAXIMISE)


    def optimisation_generous""", ['C03'], 'minsize maximises'),
 'm07': (S + 'fileIO.py', """            simp_ranks.append(rank)
            rank+=1
            in_tie = False""", """            simp_ranks.append(rank)
            in_tie = False""", ['C13', 'C10'], 'reader does not advance the rank after a closing parenthesis'),
 'm08': (G + 'generator_shared.py', "        elif i == len(pref_list) - 1 and in_tie:", "        elif i == len(pref_list) - 1 and in_tie and len(pref_list) > 2:",
         ['C13'], 'writer does not close a tie that covers a whole two-entry list'),
 'm09': (S + 'brute_force_solver.py', "        for i in range(len(profile1) - 1, -1, -1):", "        for i in range(len(profile1) - 1, 0, -1):",
         [], 'EQUIVALENT mutant (kept as a control): moregen ignores the first rank - it is only applied to matchings of equal size, where equal counts at ranks >= 2 imply equal counts at rank 1'),
 'm10': (S + 'brute_force_solver.py', """                    proj_num_allocations[proj_index] and
                    not proj_num_allocations[proj_index] == 0) or""", """                    proj_num_allocations[proj_index]) or""",
         ['C07'], 'closure rule of is_valid ignores "closed"'),
 'm11': (S + 'model.py', "if self.pulp_status == self.NOTSOLVED_PULP_STATUS or total_s > self.time_limit: ",
         "if self.pulp_status == self.NOTSOLVED_PULP_STATUS or solve_s > 2 * self.time_limit: ", ['C14'], 'Timeout condition weakened'),
 'm12': (S + 'options_parser.py', "                ordered_opts[arguments[0] - 1] = (opt, arguments[1:])",
         "                ordered_opts[arguments[0] - 1 if arguments[0] < 7 else 15 - arguments[0]] = (opt, arguments[1:])", ['C16', 'C04'],
         'list-valued criteria at positions 7..9 are placed in reversed slots'),
 'm13': (S + 'model.py', "            cost_sq_st += pair.rank_student * pair.rank_student", "            cost_sq_st += pair.rank_student * (pair.rank_student if pair.rank_student < 3 else 2)",
         ['C11'], 'squared student cost wrong from rank 3 on'),
 'm14': (S + 'model.py', "        results += '# main constraints and optimisations\\n'\n",
         "        results += '# main constraints and optimisations\\n'\n        self.info_string += ' '\n", ['C18'], 'getter mutates info_string'),
 'm15': (S + 'lp_solver.py', "                    pc_uq_exp <= uq, ", "                    pc_uq_exp <= uq + (1 if lq == uq and uq > 1 else 0), ",
         ['C01'], 'with -pc a project with lower = upper > 1 may take one student too many'),
 'm16': (S + 'lp_solver.py', "        self.prob += (obj >= lpSum(self.model.abs_lec_diff))", "        self.prob += (obj >= lpSum(self.model.abs_lec_diff[1:]))",
         ['C03'], 'lsb ignores the first lecturer'),
 'm17': (G + 'generator_shared.py', "            prefs_lists_agent2[agent1_num - 1].append(i + 1)", "            prefs_lists_agent2[agent1_num - 1].append(max(1, i))",
         ['C12'], 'second-side lists name the wrong first-side agent'),
 'm18': (G + 'generator_shared.py', "float(x * (skew - 1)/(number_agents - 1))", "float(x * (skew - 1)/(number_agents - 1 if number_agents != 3 else 3))",
         ['C17'], 'skew step wrong for exactly three agents'),
 'm19': (G + 'instance_options_parser.py', """            banned_parameters.extend([
                (args.twopl, 'twopl'),
                (args.n3, 'n3'),""", """            banned_parameters.extend([
                (args.n3, 'n3'),""", ['C15'], 'ha no longer rejects -twopl'),
 'm20': (S + 'fileIO.py', "                    model.lec_targets.append(int(line_split[2]))", "                    model.lec_targets.append(int(line_split[1]))",
         ['C10'], '2-agent embedding: target taken from the lower quota'),
 'm21': (S + 'lp_solver.py', "        self.info_string += '- optimisation: maximising size\\n'\n        obj = LpVariable(\n                \"obj_maxsize\", \n                lowBound = 0, \n                upBound = self.model.num_students, ",
         "        self.info_string += '- optimisation: maximising size\\n'\n        obj = LpVariable(\n                \"obj_maxsize\", \n                lowBound = 0, \n                upBound = self.model.num_projects + 1, ",
         ['C02', 'C03'], 'maxsize objective bounded by the number of projects + 1'),
 'm22': (S + 'solver.py', "        return self.model.get_results(Output_type.LONG, stable_correctness)", "        return self.model.get_results(Output_type.LONG, False)",
         ['C06'], 'long results never print stability_correct'),
 'm23': (G + 'generator_spa.py', "            if lec_index < num_projects_for_lec_remainder:", "            if lec_index >= n3 - num_projects_for_lec_remainder:",
         ['C08'], 'extra projects go to the last lecturers instead of the first'),
 'm24': (S + 'model.py', "                    if (worst_ranks[pair.lecturer_index] == None", "                    if (False", None, 'placeholder'),
 'm25': (S + 'lp_solver.py', "                s_i_wants_to_move_exp = LpAffineExpression(1)\n                aim_rank = pair.rank_student",
         "                s_i_wants_to_move_exp = LpAffineExpression(1)\n                aim_rank = pair.rank_student - (1 if j + 1 < st_pref_length and pairs_row[j + 1].rank_student == pair.rank_student and j > 0 and pairs_row[j - 1].rank_student == pair.rank_student else 0)",
         ['C05'], 'stability: a student in the middle of a 3-way tie "wants to move" within the tie'),
 'm26': (S + 'fileIO.py', "            line_split = line.replace(':', '').split()", "            line_split = line.replace(':', '').split(' ')\n            line_split = [x.strip() for x in line_split if x.strip() != '' or False]\n            line_split = [x for x in line_split if '\\t' not in x]",
         ['C10'], 'reader drops tokens containing a tab'),
 'm27': (S + 'solver.py', """        time_after_solve = datetime.datetime.now()
        self.model.time_after_solve = time_after_solve""", """        time_after_solve = datetime.datetime.now()
        if not hasattr(self.model, 'time_after_solve'):
            self.model.time_after_solve = time_after_solve""", ['C14'], 'end time only recorded by the first solve: a re-solve that is stopped by the time limit presents its incumbent (was a control until C14 got the policy "after a healthy solve")'),
 'm28': (S + 'model.py', "            matching[pair.student_index] = str(pair.projectID)\n        return ' '.join(matching)",
         "            matching[pair.student_index] = str(pair.projectID if pair.projectID < 3 else pair.project_index + 1 - (pair.projectID == 3 and self.num_projects > 3))\n        return ' '.join(matching)",
         ['C11', 'C01'], 'matching line prints 2 instead of 3 when there are more than three projects'),
 'm29': (S + 'solver.py', "            self.model.pulp_status = pulp_status\n",
         "            if getattr(self.model, 'pulp_status', None) in (None, '', self.model.OPTIMAL_PULP_STATUS):\n                self.model.pulp_status = pulp_status\n",
         ['C14'], 'the first status that is not Optimal sticks to the object: a later run that fails differently shows the earlier run\'s status (needs two cut-short runs on one object; MC_Runs)'),
 'm30': (S + 'lp_solver.py', "        self.model.info_string = self.info_string\n",
         "        type(self.model).info_string = self.info_string\n        if 'info_string' in self.model.__dict__:\n            del self.model.__dict__['info_string']\n",
         ['C18'], 'the constraint / optimisation summary is stored on the Model CLASS: after a solve of ANOTHER Solver object of the process this object\'s getters show the other object\'s summary (needs two live objects; MC_Hist CallOther)'),
}
del M['m24']


def sh(cmd, **kw):
    return subprocess.run(cmd, shell=True, text=True, capture_output=True, **kw)


def main():
    ap = argparse.ArgumentParser()
    ap.add_argument('--only', default='')
    ap.add_argument('--tier', default='quick')
    ap.add_argument('--all-checks', action='store_true', help='run every check on every mutant (slow), not only the expected ones')
    a = ap.parse_args()
    ids = [x for x in a.only.split(',') if x] or sorted(M)
    wt = tempfile.mkdtemp(prefix='mpmut-')
    os.rmdir(wt)
    r = sh('git -C /repo worktree add --detach %s HEAD' % wt)
    if r.returncode:
        print(r.stderr)
        sys.exit(2)
    results = {}
    scr = tempfile.mkdtemp(prefix='mpmut-ev-')
    try:
        for mid in ids:
            f, old, new, props, desc = M[mid]
            path = os.path.join(wt, f)
            src = open(path).read()
            if src.count(old) != 1:
                results[mid] = {'error': 'pattern occurs %d times' % src.count(old)}
                print(mid, results[mid])
                continue
            open(path, 'w').write(src.replace(old, new))
            t = sh('cd %s && /venv/bin/python -m pytest -q -p no:cacheprovider test 2>&1 | tail -1' % wt)
            tests_ok = ' passed' in t.stdout and 'failed' not in t.stdout
            res = {'desc': desc, 'tests_pass': tests_ok, 'expected': props, 'checks': {}}
            allp = ['C%02d' % i for i in range(1, 19)] if a.all_checks else props
            for p in allp:
                t0 = time.time()
                c = sh('cd %s && VERIF_REPO=%s VERIF_EVIDENCE_DIR=%s/ev VERIF_REPLAY_DIR=%s/rp ./check %s --tier %s' % (VERIF, wt, scr, scr, p, a.tier))
                res['checks'][p] = {'rc': c.returncode, 'violation': 'VIOLATION property=%s' % p in c.stdout,
                                    's': round(time.time() - t0), 'tail': c.stdout.strip().split('\n')[-1][:200]}
            res['detected_by'] = [p for p, v in res['checks'].items() if v['rc'] == 1 and v['violation']]
            res['detected'] = bool(res['detected_by'])
            results[mid] = res
            print(mid, 'tests_pass=%s' % tests_ok, 'detected_by=%s' % res['detected_by'], desc, flush=True)
            sh('git -C %s checkout -- .' % wt)
            sh('find %s -name __pycache__ -type d -exec rm -rf {} +' % wt)
    finally:
        sh('git -C /repo worktree remove --force %s' % wt)
        shutil.rmtree(wt, ignore_errors=True)
        shutil.rmtree(scr, ignore_errors=True)
        # evidence files were rewritten by runs against the mutants: they are not evidence about /repo
    out = os.path.join(VERIF, 'selftest', 'mutants_result.json')
    prev = {}
    if os.path.exists(out) and a.only:
        prev = json.load(open(out))
    prev.update(results)
    json.dump(prev, open(out, 'w'), indent=1)
    print('detected %d / %d' % (sum(1 for r in results.values() if r.get('detected')), len(results)))


if __name__ == '__main__':
    main()
