#!/venv/bin/python
"""Self-test (never part of a verdict on /repo): SYSTEMATIC mutation sweep.

Unlike selftest/mutants.py (a hand-written catalogue) this enumerates every
single-token mutant of the library source with a fixed operator set, keeps those
that compile and pass the unchanged 35 repository tests, draws a seeded sample
stratified by file, and runs the quick tier of the checks that look at that part
of the code.  The result is an unbiased detection rate plus a list of survivors
to be read by hand (equivalent mutant, out of every property's scope, or a gap).

    selftest/mutsweep.py enumerate            # -> selftest/mutsweep_candidates.json
    selftest/mutsweep.py run --n 60 --seed 1  # -> selftest/mutsweep_result.json

Works on scratch copies outside /repo and /verif (removed at the end); the checks
are pointed at them with VERIF_REPO and write their evidence to a scratch dir.
"""
import argparse
import io
import json
import multiprocessing as mp
import os
import random
import shutil
import subprocess
import sys
import tempfile
import time
import tokenize

VERIF = os.path.dirname(os.path.dirname(os.path.abspath(__file__)))
REPO = os.environ.get('VERIF_REPO', '/repo')
S = 'matchingproblems/solver/'
G = 'matchingproblems/generator/'
FILES = [S + f for f in ('lp_solver.py', 'model.py', 'fileIO.py', 'options_parser.py', 'solver.py', 'brute_force_solver.py')] + \
        [G + f for f in ('generator.py', 'generator_ha_sm_hr.py', 'generator_shared.py', 'generator_spa.py', 'instance_options_parser.py')]
SOLVER_CHECKS = ['C01', 'C03', 'C05', 'C02', 'C04', 'C11', 'C10', 'C06', 'C07', 'C14', 'C16', 'C18', 'C13', 'C09']
GEN_CHECKS = ['C08', 'C12', 'C13', 'C15', 'C17', 'C09']
ORDER = {      # the checks that look at each file, most likely first (a survivor costs the whole list)
    'lp_solver.py': ['C03', 'C01', 'C05', 'C04', 'C02', 'C14'],
    'model.py': ['C11', 'C06', 'C01', 'C10', 'C03', 'C14', 'C18'],
    'fileIO.py': ['C10', 'C13', 'C01', 'C09'],
    'options_parser.py': ['C16', 'C02', 'C03'],
    'solver.py': ['C18', 'C14', 'C02', 'C07', 'C06', 'C11'],
    'brute_force_solver.py': ['C07', 'C18'],
    'instance_options_parser.py': ['C15', 'C08'],
    'generator_shared.py': ['C13', 'C17', 'C08', 'C12'],
    'generator_spa.py': ['C08', 'C12', 'C09'],
    'generator_ha_sm_hr.py': ['C08', 'C12', 'C09'],
    'generator.py': ['C15', 'C08'],
}

OPS = {'<': ['<='], '<=': ['<'], '>': ['>='], '>=': ['>'], '==': ['!='], '!=': ['=='],
       '+': ['-'], '-': ['+'], '+=': ['-='], '-=': ['+='], '*': ['+'], '//': ['*'], '/': ['*']}
NAMES = {'and': ['or'], 'or': ['and'], 'True': ['False'], 'False': ['True'], 'MINIMISE': ['MAXIMISE'], 'MAXIMISE': ['MINIMISE'],
         'min': ['max'], 'max': ['min'], 'not': [''], 'break': ['continue'], 'continue': ['break']}


def mutants_of(path, rel):
    src = open(path).read()
    lines = src.split('\n')
    out = []
    toks = list(tokenize.generate_tokens(io.StringIO(src).readline))
    for i, t in enumerate(toks):
        reps = []
        if t.type == tokenize.OP and t.string in OPS:
            # skip unary minus/plus in default arguments etc. only if previous token is an operator or '('
            reps = OPS[t.string]
        elif t.type == tokenize.NAME and t.string in NAMES:
            reps = NAMES[t.string]
        elif t.type == tokenize.NUMBER and t.string.isdigit():
            v = int(t.string)
            reps = [str(v + 1)] + ([str(v - 1)] if v > 0 else [])
        if not reps:
            continue
        (r0, c0), (r1, c1) = t.start, t.end
        if r0 != r1:
            continue
        line = lines[r0 - 1]
        if line.lstrip().startswith(('import ', 'from ')):
            continue
        for rep in reps:
            new = line[:c0] + rep + line[c1:]
            out.append({'file': rel, 'line': r0, 'col': c0, 'old': t.string, 'new': rep, 'before': line.strip(), 'after': new.strip()})
    return out


def apply(root, m):
    p = os.path.join(root, m['file'])
    lines = open(p).read().split('\n')
    line = lines[m['line'] - 1]
    assert line[m['col']:m['col'] + len(m['old'])] == m['old'], (m, line)
    lines[m['line'] - 1] = line[:m['col']] + m['new'] + line[m['col'] + len(m['old']):]
    open(p, 'w').write('\n'.join(lines))


def sh(cmd, **kw):
    return subprocess.run(cmd, shell=True, text=True, capture_output=True, **kw)


def fresh_copy(dst):
    os.makedirs(dst)
    for d in ('matchingproblems', 'test', 'Evaluations'):
        shutil.copytree(os.path.join(REPO, d), os.path.join(dst, d), ignore=shutil.ignore_patterns('__pycache__'))
    for f in ('README.md',):
        shutil.copy(os.path.join(REPO, f), dst)


def _stage1(args):
    idx, chunk, base = args
    root = os.path.join(base, 'w%d' % idx)
    fresh_copy(root)
    res = []
    for m in chunk:
        p = os.path.join(root, m['file'])
        orig = open(p).read()
        try:
            apply(root, m)
            c = sh('/venv/bin/python -m py_compile %s' % p)
            if c.returncode:
                res.append((m, 'nocompile'))
                continue
            t = sh('cd %s && timeout 300 /venv/bin/python -m pytest -q -x -p no:cacheprovider test 2>&1 | tail -1' % root)
            ok = ' passed' in t.stdout and 'failed' not in t.stdout and 'error' not in t.stdout
            res.append((m, 'pass' if ok else 'fail'))
        finally:
            open(p, 'w').write(orig)
    shutil.rmtree(root, ignore_errors=True)
    return res


def enumerate_cmd(a):
    allm = []
    for rel in FILES:
        allm += mutants_of(os.path.join(REPO, rel), rel)
    base = tempfile.mkdtemp(prefix='mpsweep-')
    n = 14
    chunks = [(i, allm[i::n], base) for i in range(n)]
    with mp.Pool(n) as pool:
        res = [x for c in pool.map(_stage1, chunks) for x in c]
    shutil.rmtree(base, ignore_errors=True)
    stats = {}
    keep = []
    for m, st in res:
        stats.setdefault(m['file'], {}).setdefault(st, 0)
        stats[m['file']][st] += 1
        if st == 'pass':
            keep.append(m)
    keep.sort(key=lambda m: (m['file'], m['line'], m['col'], m['new']))
    head = sh('git -C %s rev-parse HEAD' % REPO).stdout.strip()
    json.dump({'repo_head': head, 'stats': stats, 'candidates': keep}, open(os.path.join(VERIF, 'selftest', 'mutsweep_candidates.json'), 'w'), indent=0)
    print(json.dumps(stats, indent=1))
    print('candidates passing compile+tests: %d of %d' % (len(keep), len(res)))


def run_cmd(a):
    cand = json.load(open(os.path.join(VERIF, 'selftest', 'mutsweep_candidates.json')))['candidates']
    rnd = random.Random(a.seed)
    byfile = {}
    for m in cand:
        byfile.setdefault(m['file'], []).append(m)
    # stratified: proportional to the number of candidates, at least 2 per file
    tot = len(cand)
    sample = []
    for f, ms in sorted(byfile.items()):
        k = max(2, round(a.n * len(ms) / tot))
        sample += rnd.sample(ms, min(k, len(ms)))
    rnd.shuffle(sample)
    out = os.path.join(VERIF, 'selftest', 'mutsweep_result.json')
    results = json.load(open(out)) if os.path.exists(out) and a.resume else {}
    base = tempfile.mkdtemp(prefix='mpsweep-')
    root = os.path.join(base, 'repo')
    fresh_copy(root)
    scr = os.path.join(base, 'scr')
    os.makedirs(scr)
    t_end = time.time() + a.budget
    try:
        for m in sample:
            mid = '%s:%d:%d:%s>%s' % (os.path.basename(m['file']), m['line'], m['col'], m['old'], m['new'])
            if mid in results:
                continue
            if time.time() > t_end:
                break
            p = os.path.join(root, m['file'])
            orig = open(p).read()
            apply(root, m)
            fn = os.path.basename(m['file'])
            checks = ORDER.get(fn, GEN_CHECKS)
            res = {'mutant': m, 'checks': {}, 'detected_by': []}
            for c in checks:
                t0 = time.time()
                r = sh('cd %s && VERIF_REPO=%s VERIF_EVIDENCE_DIR=%s/ev VERIF_REPLAY_DIR=%s/rp VERIF_KNOWN_FINDINGS=%s/known_findings.json ./check %s --tier quick'
                       % (VERIF, root, scr, scr, VERIF, c))
                viol = [l for l in r.stdout.split('\n') if l.startswith('VIOLATION property=%s' % c)]
                res['checks'][c] = {'rc': r.returncode, 's': round(time.time() - t0), 'tail': r.stdout.strip().split('\n')[-1][:300]}
                if r.returncode == 1 and viol:
                    res['detected_by'].append(c)
                    cls = [l for l in r.stdout.split('\n') if l.startswith('class ')]
                    res['classes'] = cls[:4]
                    break
                if r.returncode == 2:
                    res.setdefault('machinery', []).append(c)
            res['detected'] = bool(res['detected_by'])
            results[mid] = res
            print(mid, 'DETECTED by %s' % res['detected_by'] if res['detected'] else 'SURVIVED', '|', m['before'], '->', m['after'], flush=True)
            open(p, 'w').write(orig)
            sh('find %s -name __pycache__ -type d -exec rm -rf {} +' % root)
            shutil.rmtree(os.path.join(scr, 'rp'), ignore_errors=True)
            json.dump(results, open(out, 'w'), indent=1)
    finally:
        shutil.rmtree(base, ignore_errors=True)
    d = sum(1 for r in results.values() if r['detected'])
    print('detected %d / %d' % (d, len(results)))


if __name__ == '__main__':
    ap = argparse.ArgumentParser()
    ap.add_argument('cmd', choices=['enumerate', 'run'])
    ap.add_argument('--n', type=int, default=60)
    ap.add_argument('--seed', type=int, default=1)
    ap.add_argument('--budget', type=int, default=4 * 3600, help='seconds')
    ap.add_argument('--resume', action='store_true')
    a = ap.parse_args()
    (enumerate_cmd if a.cmd == 'enumerate' else run_cmd)(a)
