----------------------------- MODULE MC_Faults -----------------------------
(***************************************************************************)
(* C14: fault enumeration at the MILP boundary.  On top of the MC_Solver    *)
(* build actions TLC chooses a time limit and an OUTCOME PLAN: for every    *)
(* underlying solve (including the per-rank solves inside generous/greedy)  *)
(* either the natural outcome or one of the failures a back end can         *)
(* exhibit - once (transient) or from that solve onwards (persistent) -     *)
(* every single fault and every pair of faults, plus virtual durations.     *)
(* The specification stops at the first solve whose status is not Optimal;  *)
(* the exported plan covers ALL solves so that an implementation that       *)
(* wrongly carries on meets the later outcomes too.                         *)
(***************************************************************************)
EXTENDS MC_Solver

CONSTANTS Limits,        \* candidate time limits (0 = none)
          FaultKinds,    \* subset of Outcomes \ {"ok"}
          MaxFaults      \* 0..2

VARIABLES planned,    \* TRUE once the plan is complete
          pb          \* plan under construction: [stage, lim, faults]
fvars == <<vars, planned, pb>>

NatSolves == NSolves(Denote(fc, opts.twopl), OrderOf(opts.flags))

(* a fault [k, o, p]: outcome o at solve k, persistent (p) or once *)
RECURSIVE OutcomeAt(_, _)
OutcomeAt(i, fs) ==     \* the LAST fault that covers solve i wins
    IF fs = <<>> THEN "ok"
    ELSE LET f == fs[Len(fs)] IN
         IF i = f.k \/ (f.p /\ i > f.k) THEN f.o ELSE OutcomeAt(i, SubSeq(fs, 1, Len(fs) - 1))

(* Time is in MICROSECONDS.  Duration patterns: all fast; one slow solve    *)
(* that overshoots the limit by a single microsecond (the adversarial       *)
(* boundary: "exceeded" must mean strictly greater, however little); two    *)
(* medium solves (together exactly the limit: not exceeded); three medium   *)
(* solves.                                                                  *)
DurAt(i, pat, lim) ==
    LET LL == IF lim = 0 THEN 4000000 ELSE lim IN
    CASE pat[1] = "fast"   -> 0
      [] pat[1] = "slow"   -> IF i = pat[2] THEN LL + 1 ELSE 0
      [] pat[1] = "medium" -> IF i <= pat[2] THEN LL \div 2 ELSE 0
DurPatterns(n) == {<<"fast", 0>>} \cup {<<"slow", j>> : j \in 1 .. n} \cup {<<"medium", 2>>, <<"medium", 3>>}

PlanUnch == UNCHANGED <<fc, phase, inst, crits, steps, F, k, vals, status, proven, elapsed, result, nruns, bf, b, style, block>>

ChooseLimit ==
    /\ Built /\ phase = "init" /\ ~planned /\ pb.stage = "limit"
    /\ \E lim \in Limits : pb' = [pb EXCEPT !.stage = "faults", !.lim = lim]
    /\ UNCHANGED <<opts, plan, planned>> /\ PlanUnch
AddFault ==
    /\ pb.stage = "faults" /\ Len(pb.faults) < MaxFaults
    /\ LET last == IF pb.faults = <<>> THEN 0 ELSE pb.faults[Len(pb.faults)].k IN
       \E kk \in last + 1 .. NatSolves : \E o \in FaultKinds : \E p \in BOOLEAN :
          /\ (pb.lim = 0 => o # "TLI")
          /\ pb' = [pb EXCEPT !.faults = Append(@, [k |-> kk, o |-> o, p |-> p])]
    /\ UNCHANGED <<opts, plan, planned>> /\ PlanUnch
ChooseDur ==
    /\ pb.stage = "faults"
    /\ \E pat \in DurPatterns(NatSolves) :
          /\ plan' = [i \in 1 .. NatSolves |->
                        LET o == OutcomeAt(i, pb.faults)
                        IN  [o |-> o,
                             \* a time-limit stop takes at least the limit
                             d |-> IF o = "TLI" THEN pb.lim + 1 ELSE DurAt(i, pat, pb.lim)]]
          /\ opts' = [opts EXCEPT !.limit = pb.lim]
    /\ planned' = TRUE /\ pb' = [pb EXCEPT !.stage = "done"]
    /\ PlanUnch

FInit == Init /\ planned = FALSE /\ pb = [stage |-> "limit", lim |-> 0, faults |-> <<>>]
FNext ==
    \/ ((AddStudent \/ AddProject \/ AddLecturer \/ ChooseSided \/ AddList \/ AddCrit \/ EndCrits \/ ChooseOpts)
        /\ UNCHANGED <<planned, pb>>)
    \/ ChooseLimit \/ AddFault \/ ChooseDur
    \/ (planned /\ Construct /\ UNCHANGED <<b, style, block, planned, pb>>)
    \/ (planned /\ Built /\ nruns = 0 /\ BeginSolve /\ UNCHANGED <<b, style, block, planned, pb>>)
    \/ (SolveStep /\ UNCHANGED <<b, style, block, planned, pb>>)
    \/ (EndSolve /\ UNCHANGED <<b, style, block, planned, pb>>)
FSpec == FInit /\ [][FNext]_fvars

-----------------------------------------------------------------------------
(* Independent statement of what must be shown (C14).                      *)
BadIdx == {i \in 1 .. k : PlanAt(i).o # "ok"} \cup (IF status = "Infeasible" /\ k >= 1 THEN {k} ELSE {})
FirstBad == IF BadIdx = {} THEN 0 ELSE Min(BadIdx)
ShowsFirstBadOrTimeout ==
    phase = "solved" =>
        LET fb == FirstBad
            fo == IF fb = 0 THEN "ok" ELSE PlanAt(fb).o
        IN  CASE opts.limit > 0 /\ (elapsed > opts.limit \/ (fb > 0 /\ fo = "Not Solved")) ->
                    Presented.t = "timeout"
              [] fb = 0 -> Presented.t = "full"
              [] OTHER  -> /\ Presented.t = "status"
                           /\ Presented.status = (IF fo \in {"ok", "TLI"} THEN "Infeasible" ELSE fo)
(* the run performs no solve after the first one that is not Optimal *)
StopsAtFirstBad ==
    phase \in {"solving", "solved"} =>
        \A i \in 1 .. k - 1 : PlanAt(i).o \in {"ok", "TLI"}

(* bridge to the unbounded proof (spec/unbounded/FaultProofs.tla): the plans of this family satisfy its   *)
(* assumption, the invariant it proves holds here too, and the real actions refine the abstract ones     *)
(* (PROPERTY StepRefinesAbs, BeginRefinesAbs of MPSolver.tla).                                            *)
PlansAreOK   == planned => PlanOK
LateOrProvenHolds == phase \in {"solving", "solved"} => LateOrProven

HistFault ==
    [ kind |-> "fault", o |-> Common, inst |-> inst, crits |-> crits, limit |-> opts.limit,
      plan |-> plan, nsolves |-> k, status |-> status, proven |-> proven, elapsed |-> elapsed,
      presented |-> [t |-> PresentedT, status |-> IF PresentedT = "status" THEN status ELSE ""],
      critsStarted |-> CritsStarted,
      nF0 |-> Cardinality(F0), nF |-> Cardinality(F) ]
ExportFault == RunOver => PrintT("EXPORT " \o ToJson(HistFault))
=============================================================================
