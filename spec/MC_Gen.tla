------------------------------- MODULE MC_Gen -------------------------------
(***************************************************************************)
(* Families for the generator (C15, C08, C12, C09 at specification level). *)
(* TLC chooses a problem type, a legal argument vector from small domains  *)
(* and optionally ONE perturbation (a required option dropped, an          *)
(* inapplicable option added, a bound violated), runs the MPGen machine -  *)
(* with Generate = TRUE through every possible random draw - and exports   *)
(* the argument vector with the expected verdict.                          *)
(***************************************************************************)
EXTENDS MPGen, Json

CONSTANTS MaxN,        \* list lengths range over MinLen..MaxN
          MinLen,      \* (1 everywhere except in the long-list families)
          N1s, N2s, N3s,  \* candidate numbers of first-side / second-side / third-side agents
          NumInsts,    \* candidate -numinst values
          Perturb,     \* TRUE: also all single-fault perturbations
          Generate,    \* TRUE: run DrawList / FinishFile over all draws (keep MaxN tiny)
          TypesUsed,   \* subset of Types
          Rich,        \* TRUE: richer optional-argument domains
          Spells       \* subset of {"short", "long"}: which documented spelling of the options the caller uses

VARIABLES pert, spell
mvars == <<gvars, pert, spell>>

Opt(SS) == {NoVal} \cup SS           \* NoVal = option not given
MkArgs(mp, ni, vals) ==            \* vals: [name |-> value or NoVal]
    [mp |-> mp, numinst |-> ni, eps |-> [t1 |-> 0, t2 |-> 0], g |-> {o \in OptNames : vals[o] # NoVal},
     v |-> [o \in OptNames |-> IF vals[o] = NoVal THEN 0 ELSE vals[o]]]

(* Optional arguments come in three groups (ties/skew/two-sided, quotas,     *)
(* lecturer quotas).  A legal vector varies ONE group over its whole domain  *)
(* and keeps the others at their first value ("focus"), which turns the      *)
(* product of the domains into a sum.                                        *)
Focus == {"ties", "quotas", "lecq"}
Legal(mp) ==
    LET two == IF mp \in {"sm", "hr"} THEN {1} ELSE IF mp = "ha" THEN {NoVal} ELSE {NoVal, 1}
        tq1 == IF Rich THEN Opt({0, 2, 5, 10, 18, 20}) ELSE Opt({0, 20})     \* twentieths: 0, 0.1, 0.25, 0.5, 0.9, 1
        tq2 == IF mp = "ha" THEN {NoVal} ELSE IF Rich THEN Opt({0, 10, 18, 20}) ELSE Opt({20})
        sk  == IF Rich THEN Opt({1, 2, 6}) ELSE {NoVal, 6}
        X(fo)  == IF fo = "ties" THEN tq1 \X tq2 \X sk \X two
                  ELSE {<<NoVal, NoVal, NoVal, CHOOSE t \in two : t = 1 \/ two = {NoVal}>>}
        Q(fo, n2) == IF fo = "quotas"
                     THEN {q \in Opt({0, 1, n2} \cup (IF Rich THEN {n2 + 2} ELSE {}))
                                \X ({n2, n2 + 1, 2 * n2} \cup (IF Rich THEN {n2 + 2, 2 * n2 - 1} ELSE {})) :
                             q[1] = NoVal \/ q[1] <= q[2]}
                     ELSE {<<NoVal, n2 + 1>>}
        L3(fo, n3) == IF fo = "lecq"
                      THEN {t \in Opt({0, 1} \cup (IF Rich THEN {n3 + 1} ELSE {})) \X Opt({0, 1, n3} \cup (IF Rich THEN {n3 + 1} ELSE {}))
                                   \X ({1, n3, n3 + 2} \cup (IF Rich THEN {2 * n3 + 1} ELSE {})) :
                              /\ (t[2] # NoVal => t[2] <= t[3])
                              /\ (IF t[1] = NoVal THEN 0 ELSE t[1]) <= (IF t[2] = NoVal THEN 0 ELSE t[2])}
                      ELSE {<<NoVal, NoVal, n3 + 1>>}
    IN  UNION {UNION {UNION {UNION {
          { [o \in OptNames |->
               CASE o = "n1" -> n1 [] o = "n2" -> (IF mp = "sm" THEN NoVal ELSE n2)
                 [] o = "n3" -> (IF mp = "spa" THEN n3 ELSE NoVal)
                 [] o = "pmin" -> pm[1] [] o = "pmax" -> pm[2]
                 [] o = "t1" -> x[1] [] o = "t2" -> x[2] [] o = "skew" -> x[3] [] o = "twopl" -> x[4]
                 [] o = "lq" -> (IF mp = "sm" THEN NoVal ELSE q[1])
                 [] o = "uq" -> (IF mp = "sm" THEN NoVal ELSE q[2])
                 [] o = "llq" -> (IF mp = "spa" THEN lq3[1] ELSE NoVal)
                 [] o = "lt"  -> (IF mp = "spa" THEN lq3[2] ELSE NoVal)
                 [] o = "luq" -> (IF mp = "spa" THEN lq3[3] ELSE NoVal)]
            : pm \in {pm \in (MinLen .. MaxN) \X (MinLen .. MaxN) : pm[1] <= pm[2] /\ pm[2] <= (IF mp = "sm" THEN n1 ELSE n2)},
              x \in X(fo), q \in Q(fo, n2), lq3 \in L3(fo, n3) }
          : fo \in Focus}
          : n3 \in (IF mp = "spa" THEN N3s ELSE {1})} : n2 \in (IF mp = "sm" THEN {1} ELSE N2s)} : n1 \in N1s}

(* single-fault perturbations of a legal vector *)
Viol(mp) == {"numinst0", "n1_0", "pmin0", "pmin>pmax", "pmax>n2", "t1neg", "t1big",
             "numinst_far", "n1_far", "pmax_far", "t1_far", "pmin_far", "t1_hair_above", "t1_hair_below"}      \* "_far": far beyond the bound, not just past it
            \cup (IF mp # "sm" THEN {"n2_0", "lqneg", "uq<n2", "lq>uq", "lq_far", "uq_far", "n2_far"} ELSE {})
            \cup (IF mp # "ha" THEN {"t2neg", "t2big", "t2_far", "t2_hair_above", "t2_hair_below"} ELSE {})
            \cup (IF mp = "spa" THEN {"n3_0", "luq0", "ltneg", "lt>luq", "llq>lt", "llqneg", "lt_far", "llq_far", "luq_far"} ELSE {})
Perts(mp) == {<<"none", "">>}
             \cup (IF Perturb THEN {<<"drop", o>> : o \in Required(mp)} \cup {<<"add", o>> : o \in Inapplicable(mp)}
                                   \cup {<<"add0", o>> : o \in Inapplicable(mp) \ {"twopl", "n2", "n3", "uq", "luq"}}
                                   \cup {<<"viol", w>> : w \in Viol(mp)}
                   ELSE {})
AddValue(o) == CASE o \in {"n2", "n3"} -> 2 [] o = "twopl" -> 1 [] o = "t2" -> 2 [] o = "uq" -> 5 [] OTHER -> 1
Apply(a, pt) ==
    LET set(o, x) == [a EXCEPT !.g = @ \cup {o}, !.v[o] = x]
        n2 == N2(a)
    IN
    CASE pt[1] = "none" -> a
      [] pt[1] = "drop" -> [a EXCEPT !.g = @ \ {pt[2]}]
      [] pt[1] = "add"  -> set(pt[2], AddValue(pt[2]))
      [] pt[1] = "add0" -> set(pt[2], 0)        \* an inapplicable option given its neutral value is still inapplicable
      [] pt[2] = "numinst0" -> [a EXCEPT !.numinst = 0]
      [] pt[2] = "n1_0" -> set("n1", 0)
      [] pt[2] = "n2_0" -> set("n2", 0)
      [] pt[2] = "n3_0" -> set("n3", 0)
      [] pt[2] = "pmin0" -> set("pmin", 0)
      [] pt[2] = "pmin>pmax" -> set("pmin", a.v["pmax"] + 1)
      [] pt[2] = "pmax>n2" -> set("pmax", n2 + 1)
      [] pt[2] = "t1neg" -> set("t1", -5)
      [] pt[2] = "t1big" -> set("t1", 25)
      [] pt[2] = "t2neg" -> set("t2", -5)
      [] pt[2] = "t2big" -> set("t2", 25)
      [] pt[2] = "t1_hair_above" -> [set("t1", 20) EXCEPT !.eps.t1 = 1]      \* 1 + 2^-40
      [] pt[2] = "t1_hair_below" -> [set("t1", 0) EXCEPT !.eps.t1 = -1]      \* -2^-40
      [] pt[2] = "t2_hair_above" -> [set("t2", 20) EXCEPT !.eps.t2 = 1]
      [] pt[2] = "t2_hair_below" -> [set("t2", 0) EXCEPT !.eps.t2 = -1]
      [] pt[2] = "numinst_far" -> [a EXCEPT !.numinst = -7]
      [] pt[2] = "n1_far" -> set("n1", -12)
      [] pt[2] = "n2_far" -> set("n2", -12)
      [] pt[2] = "pmin_far" -> set("pmin", -3)
      [] pt[2] = "pmax_far" -> set("pmax", 5 * n2 + 7)
      [] pt[2] = "t1_far" -> set("t1", 140)
      [] pt[2] = "t2_far" -> set("t2", -60)
      [] pt[2] = "lq_far" -> set("lq", -100)
      [] pt[2] = "uq_far" -> set("uq", 0)
      [] pt[2] = "lt_far" -> set("lt", a.v["luq"] + 50)
      [] pt[2] = "llq_far" -> set("llq", LT(a) + 50)
      [] pt[2] = "luq_far" -> set("luq", -9)
      [] pt[2] = "lqneg" -> set("lq", -1)
      [] pt[2] = "uq<n2" -> set("uq", n2 - 1)
      [] pt[2] = "lq>uq" -> set("lq", a.v["uq"] + 1)
      [] pt[2] = "luq0" -> set("luq", 0)
      [] pt[2] = "ltneg" -> set("lt", -1)
      [] pt[2] = "lt>luq" -> set("lt", a.v["luq"] + 1)
      [] pt[2] = "llq>lt" -> set("llq", LT(a) + 1)
      [] pt[2] = "llqneg" -> set("llq", -1)

MInit == /\ GInit
         /\ \E mp \in TypesUsed : \E ni \in NumInsts : \E vals \in Legal(mp) : \E pt \in Perts(mp) :
              /\ args = Apply(MkArgs(mp, ni, vals), pt)
              /\ pert = pt
         /\ spell \in Spells
MNext == /\ (ParseArgs \/ MkDir \/ (Generate /\ (DrawList \/ FinishFile)))
         /\ UNCHANGED <<pert, spell>>
MSpec == MInit /\ [][MNext]_mvars

(* the legal vectors really are legal, and every perturbation is a fault *)
FamilySound == /\ pert[1] = "none" => Accepts(args)
               /\ pert[1] # "none" => ~Accepts(args)
ExportArgs == gphase \in {"accepted", "rejected"} =>
    PrintT("EXPORT " \o ToJson([mp |-> args.mp, numinst |-> args.numinst, given |-> args.g, v |-> args.v, eps |-> args.eps,
                                pert |-> pert, accept |-> Accepts(args), spell |-> spell, names |-> GenOptNames(spell)]))
=============================================================================
