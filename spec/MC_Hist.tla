------------------------------ MODULE MC_Hist ------------------------------
(***************************************************************************)
(* C18: call histories on one Solver object.  After the MC_Solver build    *)
(* actions TLC explores every finite sequence over                         *)
(*     {solve, get_results, get_results_short, get_results_long, get_debug} *)
(* (plus "other": a call on another Solver object of the same process)      *)
(* that starts with solve, up to MaxCalls calls.  Getters are read-only     *)
(* (action property GettersReadOnly); solving again starts from the same    *)
(* admissible set, hence yields the same status and the same frozen values  *)
(* although the back end may return a different optimal matching.           *)
(***************************************************************************)
EXTENDS MC_Solver

CONSTANT MaxCalls

VARIABLES calls,     \* history of public calls
          first      \* status / values of the first completed solve
hvars == <<vars, calls, first>>

NoFirst == [status |-> "", vals |-> <<>>, F |-> {}]

HInit == Init /\ calls = <<>> /\ first = NoFirst

Keep == UNCHANGED <<b, style, block>>

CallSolve ==      \* Solver.solve(): the whole run is one public call
    /\ Built /\ phase \in {"ready", "solved"} /\ Len(calls) < MaxCalls
    /\ (IF opts.bf THEN BFRun ELSE BeginSolve)
    /\ calls' = Append(calls, "solve")
    /\ UNCHANGED first /\ Keep
Internal ==       \* steps inside a solve() call
    /\ (SolveStep \/ EndSolve)
    /\ calls' = calls
    /\ first' = IF phase' = "solved" /\ first = NoFirst THEN [status |-> status', vals |-> vals', F |-> F'] ELSE first
    /\ Keep
NoteFirstBF ==
    /\ Built /\ opts.bf /\ phase = "solved" /\ first = NoFirst
    /\ first' = [status |-> "bf", vals |-> <<>>, F |-> {}]
    /\ UNCHANGED <<svars, calls>> /\ Keep
CallGet(kind) ==
    /\ Len(calls) < MaxCalls /\ Len(calls) >= 1
    /\ Get(kind)
    /\ calls' = Append(calls, kind)
    /\ UNCHANGED first /\ Keep

(* A call on ANOTHER Solver object of the same process (its construction, a solve, its getters): objects do   *)
(* not share state, so this object's state - hence what its getters return - is unchanged.  Recorded in the   *)
(* history as "other"; the replay keeps a second object on a different instance alive and calls it here.       *)
CONSTANT Others      \* TRUE: histories may contain calls on another object
CallOther ==
    /\ Others /\ Len(calls) < MaxCalls /\ Len(calls) >= 1 /\ phase = "solved"
    /\ calls[Len(calls)] # "other"
    /\ calls' = Append(calls, "other")
    /\ UNCHANGED <<svars, first>> /\ Keep

HNext ==
    \/ CallOther
    \/ ((AddStudent \/ AddProject \/ AddLecturer \/ ChooseSided \/ AddList \/ AddCrit \/ EndCrits \/ ChooseOpts)
        /\ UNCHANGED <<calls, first>>)
    \/ (Built /\ Construct /\ UNCHANGED <<b, style, block, calls, first>>)
    \/ CallSolve \/ Internal \/ NoteFirstBF
    \/ \E kind \in GetKinds : CallGet(kind)
HSpec == HInit /\ [][HNext]_hvars

-----------------------------------------------------------------------------
IsGet == calls' # calls /\ calls'[Len(calls')] # "solve"
GettersReadOnly == [][IsGet => UNCHANGED svars]_hvars

(* Solving again reproduces status and values, and again presents a valid  *)
(* matching (possibly a different one).                                    *)
ResolveSameValues ==
    phase = "solved" /\ ~opts.bf /\ first # NoFirst =>
        /\ status = first.status /\ vals = first.vals /\ F = first.F
        /\ status = "Optimal" => Valid(inst, result, opts.pc) /\ (opts.stab => Stable(inst, result))

(* What a getter returns is a function of the solver state and of the       *)
(* getter ALONE (GettersReadOnly: no getter changes svars, and Get(kind)     *)
(* reads nothing else) - in particular not of which other getters were       *)
(* called before it.  The replay binds this with a reference run: a second   *)
(* Solver taken through the same solves without any getter call, on which    *)
(* the getter is the first call, must return the same text                   *)
(* (clause getter_text_independent_of_other_getters).                        *)
GetterContent(kind) == [kind |-> kind, content |-> IF opts.bf THEN <<"bf", bf>> ELSE <<"lp", status, vals, result>>]
(* abstract content of what a getter returns in the current state *)
HistCalls ==
    [ kind |-> "hist", o |-> Common, inst |-> inst, crits |-> crits, calls |-> calls,
      status |-> IF opts.bf THEN "bf" ELSE status, vals |-> vals,
      Ffin |-> IF opts.bf THEN <<>> ELSE SetToSeq(F),
      nF0 |-> IF opts.bf THEN 0 ELSE Cardinality(F0), nF |-> Cardinality(F) ]
Quiescent == phase = "solved" /\ (opts.bf => first # NoFirst)
ExportHist == (Len(calls) = MaxCalls /\ Quiescent) => PrintT("EXPORT " \o ToJson(HistCalls))
=============================================================================
