----------------------------- MODULE MC_Options -----------------------------
(***************************************************************************)
(* C16: every assignment of positions (absent, or integers around 1..9) to *)
(* the nine criteria, flag order, extra arguments, -twopl / -stab.  TLC     *)
(* builds the command line one flag at a time, checks that the parser's    *)
(* slot mechanism refines the declarative rule, and exports the expected   *)
(* refusal or order for replay into Solver(argv).                          *)
(***************************************************************************)
EXTENDS MPOptions, Json

CONSTANTS PosDomain,     \* candidate position numbers
          MaxFlags,      \* maximal number of criterion flags
          MinFlags,
          ExtraMode,     \* "none" | "some": optional extra arguments
          Spellings      \* subset of BOOLEAN: FALSE = short option name, TRUE = long option name

VARIABLES flags, twopl, stab, stage,
          names          \* presentation: the spelling of each criterion flag (same index as flags) and of the fixed options
ovars == <<flags, twopl, stab, stage, names>>

ExtrasFor(c) ==
    IF ExtraMode = "none" THEN {<<>>}
    ELSE CASE c = "gen" -> {<<>>, <<1>>, <<2>>}
           [] c = "gre" -> {<<>>, <<1>>, <<2>>, <<12>>}            \* a greedy cut-off may exceed the maximum rank
           [] c \in {"mincost", "minsqcost", "mincostlsb"} -> {<<>>, <<1>>, <<2, 1>>, <<10, 1>>, <<1, 11>>}
           [] OTHER -> {<<>>}

Init == flags = <<>> /\ twopl = FALSE /\ stab = FALSE /\ stage = "flags" /\ names = [flags |-> <<>>, fixed |-> FALSE]

AddFlag ==
    /\ stage = "flags" /\ Len(flags) < MaxFlags
    /\ \E c \in CritNames : \E pos \in PosDomain : \E x \in ExtrasFor(c) :
         /\ \A i \in DOMAIN flags : flags[i].c # c
         /\ flags' = Append(flags, [c |-> c, pos |-> pos, x |-> x])
         /\ \E lg \in Spellings : names' = [names EXCEPT !.flags = Append(@, SolverOptName(c, lg))]
    /\ UNCHANGED <<twopl, stab, stage>>
Finish ==
    /\ stage = "flags" /\ Len(flags) >= MinFlags
    /\ \E t \in BOOLEAN, st \in BOOLEAN : twopl' = t /\ stab' = st
    /\ stage' = "done"
    /\ \E lg \in Spellings : names' = [names EXCEPT !.fixed = lg]
    /\ UNCHANGED flags
Next == AddFlag \/ Finish
Spec == Init /\ [][Next]_ovars

Done == stage = "done"
Refines == Done => MechRefinesDefs(flags, twopl, stab)
(* properties of the declarative order itself *)
OrderLaws ==
    Done /\ ~Refused(flags, twopl, stab) =>
        LET o == OrderOf(flags) IN
        /\ Len(o) = Len(flags)
        /\ \A i \in DOMAIN flags : \E k \in DOMAIN o : o[k].c = flags[i].c /\ o[k].x = flags[i].x   \* extras stay
        /\ \A k1, k2 \in DOMAIN o : k1 < k2 =>
              (CHOOSE i \in DOMAIN flags : flags[i].c = o[k1].c) # (CHOOSE i \in DOMAIN flags : flags[i].c = o[k2].c)
        /\ \A k \in 1 .. Len(o) - 1 :
              flags[CHOOSE i \in DOMAIN flags : flags[i].c = o[k].c].pos
                < flags[CHOOSE i \in DOMAIN flags : flags[i].c = o[k + 1].c].pos
Export == Done => PrintT("EXPORT " \o ToJson(
              [ flags |-> flags, twopl |-> twopl, stab |-> stab,
                names |-> [flags |-> names.flags,
                           fixed |-> [o \in {"f", "na", "twopl", "stab"} |-> SolverOptName(o, names.fixed)]],
                refused |-> Refused(flags, twopl, stab),
                order |-> IF Refused(flags, twopl, stab) THEN <<>> ELSE OrderOf(flags) ]))
=============================================================================
