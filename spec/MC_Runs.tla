------------------------------ MODULE MC_Runs ------------------------------
(***************************************************************************)
(* C14 over HISTORIES OF RUNS on one Solver object.  MC_Faults enumerates   *)
(* the outcome plan of one run on a fresh object; here the object has       *)
(* already been through an EARLIER run that was itself cut short (or slow,  *)
(* or healthy) under its own time limit:                                     *)
(*                                                                           *)
(*    Construct ; run 1 (limit 1, plan 1) ; getters ; run 2 (limit 2, plan 2)*)
(*                                                                           *)
(* The plan of the LATER run is built with the MC_Faults actions            *)
(* (ChooseLimit, AddFault, ChooseDur); ChoosePrior then chooses the earlier *)
(* run - its limit, at most one transient fault at any underlying solve and *)
(* at most one slow solve - and installs its plan; SwapPlan installs the    *)
(* later run's plan and limit once the earlier run is over.  What may be    *)
(* presented after EACH run is decided by that run alone (BeginSolve resets *)
(* status, proven, elapsed): every invariant of MC_Faults is checked on     *)
(* both runs.  `first` remembers how the earlier run ended; the export      *)
(* carries both, plus the total virtual time since construction (the        *)
(* implementation measures from construction, the statement speaks about    *)
(* the run: the replay gives no verdict on Timeout-versus-result where the  *)
(* two readings differ, and a verdict everywhere else).                     *)
(***************************************************************************)
EXTENDS MC_Faults

VARIABLES prior,   \* [stage, plan2, lim2]: the later run's plan while the earlier one executes
          first    \* how the earlier run ended
rvars == <<fvars, prior, first>>

NoFirst == [done |-> FALSE]

RunsInit == FInit /\ prior = [stage |-> "choose", plan2 |-> <<>>, lim2 |-> 0] /\ first = NoFirst

RunUnch == UNCHANGED <<fc, inst, crits, steps, F, k, vals, status, proven, elapsed, result, nruns, bf, b, style, block, planned, pb>>

(* the earlier run: limit, one transient fault (kk = 0: none), one slow solve (sl = 0: none) *)
ChoosePrior ==
    /\ planned /\ phase = "init" /\ prior.stage = "choose"
    /\ \E lim1 \in Limits : \E kk \in 0 .. NatSolves : \E o \in FaultKinds : \E sl \in 0 .. NatSolves :
          /\ (kk = 0 => o = CHOOSE x \in FaultKinds : TRUE)        \* no fault: the kind is irrelevant
          /\ (o = "TLI" /\ kk > 0 => lim1 > 0)
          /\ LET LL == IF lim1 = 0 THEN 4000000 ELSE lim1
                 p1 == [i \in 1 .. NatSolves |->
                          LET oo == IF i = kk THEN o ELSE "ok"
                          IN  [o |-> oo, d |-> IF oo = "TLI" THEN lim1 + 1 ELSE IF i = sl THEN LL + 1 ELSE 0]]
             IN  /\ prior' = [stage |-> "run1", plan2 |-> plan, lim2 |-> opts.limit]
                 /\ plan' = p1
                 /\ opts' = [opts EXCEPT !.limit = lim1]
    /\ UNCHANGED <<first, phase>> /\ RunUnch

SwapPlan ==
    /\ phase = "solved" /\ nruns = 1 /\ prior.stage = "run1"
    /\ first' = [done |-> TRUE, limit |-> opts.limit, plan |-> plan, nsolves |-> k, status |-> status,
                 proven |-> proven, elapsed |-> elapsed,
                 presented |-> [t |-> PresentedT, status |-> IF PresentedT = "status" THEN status ELSE ""],
                 critsStarted |-> CritsStarted]
    /\ plan' = prior.plan2
    /\ opts' = [opts EXCEPT !.limit = prior.lim2]
    /\ prior' = [prior EXCEPT !.stage = "run2"]
    /\ phase' = "ready"        \* between two solve() calls: the state invariants speak about a run and its own plan
    /\ RunUnch

RunsRest == UNCHANGED <<b, style, block, planned, pb, prior, first>>
RunsNext ==
    \/ ((AddStudent \/ AddProject \/ AddLecturer \/ ChooseSided \/ AddList \/ AddCrit \/ EndCrits \/ ChooseOpts)
        /\ UNCHANGED <<planned, pb, prior, first>>)
    \/ ((ChooseLimit \/ AddFault \/ ChooseDur) /\ UNCHANGED <<prior, first>>)
    \/ ChoosePrior
    \/ (prior.stage = "run1" /\ Construct /\ RunsRest)
    \/ (prior.stage = "run1" /\ Built /\ nruns = 0 /\ BeginSolve /\ RunsRest)
    \/ SwapPlan
    \/ (prior.stage = "run2" /\ nruns = 1 /\ BeginSolve /\ RunsRest)
    \/ (SolveStep /\ RunsRest)
    \/ (EndSolve /\ RunsRest)
RunsSpec == RunsInit /\ [][RunsNext]_rvars

-----------------------------------------------------------------------------
(* the later run starts from the same admissible set, whatever happened before *)
SecondRunFresh ==
    phase = "solving" /\ nruns = 1 /\ k = 0 =>
        F = Feasible(inst, opts.pc, opts.stab) /\ proven /\ status = "" /\ elapsed = 0 /\ vals = <<>>
(* both plans respect the assumption of the unbounded proof *)
PlansAreOKBoth == (planned /\ prior.stage # "choose") => PlanOK

HistRuns ==
    [ kind |-> "runs", o |-> Common, inst |-> inst, crits |-> crits, limit |-> opts.limit,
      plan |-> plan, nsolves |-> k, status |-> status, proven |-> proven, elapsed |-> elapsed,
      presented |-> [t |-> PresentedT, status |-> IF PresentedT = "status" THEN status ELSE ""],
      critsStarted |-> CritsStarted, first |-> first,
      total |-> first.elapsed + elapsed,
      nF0 |-> Cardinality(F0), nF |-> Cardinality(F) ]
ExportRuns == (RunOver /\ nruns = 1) => PrintT("EXPORT " \o ToJson(HistRuns))
=============================================================================
