------------------------------ MODULE MC_Skew ------------------------------
(***************************************************************************)
(* C17: the popularity weights used for drawing preference lists.  For n   *)
(* agents and skew s = p/q > 0 the weights are the arithmetic progression  *)
(* from 1 to s, normalised to sum 1.  Exact rationals <<num, den>>.        *)
(***************************************************************************)
EXTENDS Integers, Sequences, FiniteSets, TLC, Json

CONSTANTS Triples         \* set of <<n, p, q>>: number of agents and skew p/q (chosen so that n(n-1)(p+q) stays below 2^31)
VARIABLES n, p, q, dist, phase,
          used        \* the weight vectors handed to the drawing routine so far in this run (one per drawn list)
skvars == <<n, p, q, dist, phase, used>>
MaxDraws == 2

(* unnormalised weight i over the common denominator (n-1)q:               *)
(*   1 + (i-1)(s-1)/(n-1)  =  ((n-1)q + (i-1)(p-q)) / ((n-1)q)             *)
RawNum(nn, pp, qq, i) == (nn - 1) * qq + (i - 1) * (pp - qq)
RECURSIVE SumRaw(_, _, _, _)
SumRaw(nn, pp, qq, i) == IF i = 0 THEN 0 ELSE RawNum(nn, pp, qq, i) + SumRaw(nn, pp, qq, i - 1)
(* the implementation step: build the progression, then divide by its sum  *)
Weights(nn, pp, qq) ==
    IF nn = 1 THEN << <<1, 1>> >>
    ELSE LET total == SumRaw(nn, pp, qq, nn) IN [i \in 1 .. nn |-> <<RawNum(nn, pp, qq, i), total>>]

Init == \E t \in Triples : n = t[1] /\ p = t[2] /\ q = t[3] /\ dist = <<>> /\ phase = "args" /\ used = <<>>
Compute == /\ phase = "args" /\ dist' = Weights(n, p, q) /\ phase' = "done" /\ UNCHANGED <<n, p, q, used>>
(* every preference list of the run - whatever its length, complete lists included - is drawn with the   *)
(* weights computed from THIS run's arguments; the first entry of a list is agent i with probability      *)
(* dist[i] (Positive, SumsToOne: the weights are a probability distribution)                               *)
Draw == /\ phase = "done" /\ Len(used) < MaxDraws /\ used' = Append(used, dist) /\ UNCHANGED <<n, p, q, dist, phase>>
Spec == Init /\ [][Compute \/ Draw]_skvars

Done == phase = "done"
REq(a, b)  == a[1] * b[2] = b[1] * a[2]
RSub(a, b) == <<a[1] * b[2] - b[1] * a[2], a[2] * b[2]>>
Positive   == Done => \A i \in 1 .. n : dist[i][1] > 0 /\ dist[i][2] > 0
RECURSIVE NumSum(_, _)
NumSum(d, i) == IF i = 0 THEN 0 ELSE d[i][1] + NumSum(d, i - 1)
SumsToOne  == Done => NumSum(dist, n) = dist[1][2]          \* common denominator
(* all weights share one denominator, so the progression can be stated on  *)
(* the numerators (TLC integers are 32 bit: no cross products of products) *)
CommonDen  == Done => \A i \in 1 .. n : dist[i][2] = dist[1][2]
Arithmetic == Done => \A i \in 2 .. n - 1 : dist[i + 1][1] - dist[i][1] = dist[i][1] - dist[i - 1][1]
(* (all weights share one denominator: compare numerators; keeps the products within TLC's 32-bit integers) *)
LastIsSTimesFirst == Done /\ n >= 2 /\ p <= 2000 /\ q <= 2000 => dist[n][2] = dist[1][2] /\ dist[n][1] * q = p * dist[1][1]
(* the same ratio without a product of p and q (skews like 100001/100000): first : last = (n-1)q : (n-1)p *)
LastFirstRatio == Done /\ n >= 2 => dist[n][2] = dist[1][2] /\ dist[1][1] = (n - 1) * q /\ dist[n][1] = (n - 1) * p
SingleAgent == Done /\ n = 1 => dist = << <<1, 1>> >>
(* C17 speaks of the weights USED FOR DRAWING: whatever reaches the drawing routine in a run with arguments  *)
(* (n, p/q) is Weights(n, p, q) - not the weights of an earlier run of the same process, nor of another n.  *)
UsedAreThisRuns == \A i \in DOMAIN used : used[i] = Weights(n, p, q)
Export == Done /\ used = <<>> => PrintT("EXPORT " \o ToJson([n |-> n, p |-> p, q |-> q, dist |-> dist]))
=============================================================================
