----------------------------- MODULE MC_Solver -----------------------------
(***************************************************************************)
(* Bounded families for the solver machine.  TLC CONSTRUCTS every instance *)
(* file and option set of a family by nondeterministic build actions (one  *)
(* component per step, so that -simulate can sample large families), runs  *)
(* the MPSolver machine on it, checks the M1 obligations (Mech refines     *)
(* Defs) and exports the observable behaviour for replay (M2).             *)
(***************************************************************************)
EXTENDS MPSolver, Json

CONSTANTS
    NA,          \* 2 or 3 agent file
    NS, NP, NL,  \* numbers of students, projects, lecturers (NL ignored for NA = 2)
    MaxLen,      \* maximal student list length
    TieMode,     \* "all": every tie structure, "none": strict lists
    AllowEmpty,  \* may a student list be empty?
    PQ,          \* admissible <<lq, uq>> per project
    LQ,          \* admissible <<lq, target, uq>> per lecturer (NA = 3)
    LecMapMode,  \* "all": every project->lecturer map, "mono": non-decreasing maps
    Sided,       \* subset of {"one", "two", "ignored"}: lists absent / present and used / present but not requested
    OrderMode,   \* "all": every tie-structured second-side order, "asc": ascending strict, "asctied": ascending, all tied
    PCs, Stabs,  \* subsets of BOOLEAN
    BFs,         \* subset of BOOLEAN: brute-force mode
    CritLists,   \* set of ordered criteria lists (CritMode = "set")
    CritMode,    \* "set": choose a list from CritLists; "build": add one criterion per step
    CritVariants,\* set of criteria [c, x] the build mode chooses from
    MinCrits, MaxCrits,
    Press,       \* subset of {"id", "rev", "gap"}
    Styles,      \* subset of {"plain", "wide", "tabs", "crlf", "nofinal"}: whitespace / line-end variants of the rendered file
    InfoBlocks,  \* subset of BOOLEAN: trailing parameter block present?
    CheckIP,     \* evaluate the IP-level M1 obligations
    CheckText,   \* evaluate ParseFile(Render(fc)) = inst
    ReportCap,   \* how many final matchings get an expected report in the export
    Detail,      \* export F0 and per-solve sets
    Shifts,      \* set of id shifts <<ks, kp, kl>>: the built instance is embedded among ks dummy students, kp dummy
                 \* projects and kl dummy lecturers (nobody ranks them), so that the active agent numbers are large
    ExportMode   \* "run": export finished runs; "checker": export stability verdicts of all upper-quota-respecting
                 \* assignments; "load": export the instance as denoted by the file, nothing is solved

VARIABLES b, style, block
vars == <<svars, b, style, block>>

StyleOf(nm) ==
    CASE nm = "plain" -> PlainStyle
      [] nm = "wide"  -> [sep |-> <<32, 32, 32>>, lead |-> <<32>>, trail |-> <<32, 32>>, colsep |-> <<32, 32>>, eol |-> <<10>>]
      [] nm = "tabs"  -> [sep |-> <<9>>, lead |-> <<>>, trail |-> <<9>>, colsep |-> <<9, 32>>, eol |-> <<10>>]
      [] nm = "crlf"  -> [sep |-> <<32>>, lead |-> <<>>, trail |-> <<>>, colsep |-> <<32>>, eol |-> <<13, 10>>]
      [] nm = "nofinal" -> [sep |-> <<32>>, lead |-> <<>>, trail |-> <<>>, colsep |-> <<32>>, eol |-> <<10>>, final |-> FALSE]

-----------------------------------------------------------------------------
(* component sets *)
RECURSIVE DistinctSeqs(_, _)
DistinctSeqs(D, n) ==       \* sequences of n distinct elements of D
    IF n = 0 THEN {<<>>}
    ELSE UNION {{Append(q, e) : e \in D \ Rng(q)} : q \in DistinctSeqs(D, n - 1)}
TieVecs(n) == IF n = 0 THEN {<<>>}
              ELSE IF TieMode = "none" THEN {[i \in 1 .. n |-> 0]}
              ELSE {[i \in 1 .. n |-> IF i < n THEN t[i] ELSE 0] : t \in [1 .. n - 1 -> {0, 1}]}
StudentLists ==
    UNION {{[p |-> q, r |-> RanksOfTies(t)] : q \in DistinctSeqs(1 .. NP, n), t \in TieVecs(n)}
           : n \in (IF AllowEmpty THEN 0 ELSE 1) .. MaxLen}

Canonical(q, t) == \A i \in 1 .. Len(q) - 1 : t[i] = 1 => q[i] < q[i + 1]
OrdersOf(T) ==      \* tie-structured orders of the set T (second-side lists)
    LET n == Cardinality(T)
        asc == SortedSeqOf(T)
    IN  CASE OrderMode = "asc"     -> {[p |-> asc, r |-> [i \in 1 .. n |-> i]]}
          [] OrderMode = "asctied" -> {[p |-> asc, r |-> [i \in 1 .. n |-> 1]]}
          [] OrderMode = "all" ->
               UNION {{[p |-> q, r |-> RanksOfTies(t)] : t \in {t \in [1 .. n -> {0, 1}] : (n > 0 => t[n] = 0) /\ Canonical(q, t)}}
                      : q \in DistinctSeqs(T, n)}

NLec == IF NA = 2 THEN NP ELSE NL
AfterLists == IF CritMode = "build" THEN "crits" ELSE "opts"

-----------------------------------------------------------------------------
(* build state *)
BInit == b = [stage |-> "students", prefs |-> <<>>, ranks |-> <<>>, plq |-> <<>>, puq |-> <<>>, plec |-> <<>>,
              llq |-> <<>>, lt |-> <<>>, luq |-> <<>>, sided |-> "one", lprefs |-> <<>>, lranks |-> <<>>,
              cl |-> <<>>]

Init == /\ BInit /\ SInit
        /\ fc = [na |-> 0] /\ opts = [na |-> 0] /\ plan = <<>>
        /\ style = "plain" /\ block = FALSE

AddStudent ==
    /\ b.stage = "students"
    /\ \E li \in StudentLists :
         b' = [b EXCEPT !.prefs = Append(@, li.p), !.ranks = Append(@, li.r),
                        !.stage = IF Len(b.prefs) + 1 = NS THEN "projects" ELSE "students"]
    /\ UNCHANGED <<svars, style, block>>

AddProject ==
    /\ b.stage = "projects"
    /\ LET p == Len(b.plq) + 1
           lecs == IF NA = 2 THEN {p}
                   ELSE IF LecMapMode = "all" THEN 1 .. NL
                   ELSE {l \in 1 .. NL : p = 1 \/ l >= b.plec[p - 1]}
       IN \E q \in PQ : \E l \in lecs :
            b' = [b EXCEPT !.plq = Append(@, q[1]), !.puq = Append(@, q[2]), !.plec = Append(@, l),
                           !.stage = IF p = NP THEN (IF NA = 2 THEN "sided" ELSE "lecturers") ELSE "projects"]
    /\ UNCHANGED <<svars, style, block>>

AddLecturer ==
    /\ b.stage = "lecturers"
    /\ \E q \in LQ :
         b' = [b EXCEPT !.llq = Append(@, q[1]), !.lt = Append(@, q[2]), !.luq = Append(@, q[3]),
                        !.stage = IF Len(b.llq) + 1 = NL THEN "sided" ELSE "lecturers"]
    /\ UNCHANGED <<svars, style, block>>

ChooseSided ==
    /\ b.stage = "sided"
    /\ \E sd \in Sided :
         b' = [b EXCEPT !.sided = sd, !.stage = IF sd = "one" THEN AfterLists ELSE "lists"]
    /\ UNCHANGED <<svars, style, block>>

(* criteria list built one criterion per step (sampling-friendly) *)
MaxRankB == MaxSeq0([s \in 1 .. NS |-> MaxSeq0(b.ranks[s])])
AdmissibleMR(mr, cr) ==
    /\ cr.c = "gen" /\ Len(cr.x) >= 1 => cr.x[1] >= 1 /\ cr.x[1] <= mr
    /\ cr.c = "gre" /\ Len(cr.x) >= 1 => cr.x[1] >= 1
AddCrit ==
    /\ b.stage = "crits" /\ Len(b.cl) < MaxCrits
    /\ \E cv \in CritVariants :
         /\ \A i \in DOMAIN b.cl : b.cl[i].c # cv.c
         /\ AdmissibleMR(MaxRankB, cv)
         /\ b' = [b EXCEPT !.cl = Append(@, cv)]
    /\ UNCHANGED <<svars, style, block>>
EndCrits ==
    /\ b.stage = "crits" /\ Len(b.cl) >= MinCrits
    /\ b' = [b EXCEPT !.stage = "opts"]
    /\ UNCHANGED <<svars, style, block>>

RankersOf(l) == {s \in 1 .. NS : \E i \in DOMAIN b.prefs[s] : b.plec[b.prefs[s][i]] = l}
AddList ==
    /\ b.stage = "lists"
    /\ LET l == Len(b.lprefs) + 1 IN
       \E o \in OrdersOf(RankersOf(l)) :
         b' = [b EXCEPT !.lprefs = Append(@, o.p), !.lranks = Append(@, o.r),
                        !.stage = IF l = NLec THEN AfterLists ELSE "lists"]
    /\ UNCHANGED <<svars, style, block>>

EmptyLists == [l \in 1 .. NLec |-> <<>>]
FCofB ==
    [ na |-> NA, ns |-> NS, np |-> NP, nl |-> NLec,
      prefs |-> b.prefs, ranks |-> b.ranks, plq |-> b.plq, puq |-> b.puq, plec |-> b.plec,
      llq |-> IF NA = 2 THEN b.plq ELSE b.llq,
      lt  |-> IF NA = 2 THEN b.puq ELSE b.lt,
      luq |-> IF NA = 2 THEN b.puq ELSE b.luq,
      lists  |-> b.sided # "one",
      lprefs |-> IF b.sided = "one" THEN EmptyLists ELSE b.lprefs,
      lranks |-> IF b.sided = "one" THEN EmptyLists ELSE b.lranks ]

(* Embedding among dummy agents: a shift is <<ks, kp, kl>>.  Students 1..ks have empty lists, projects       *)
(* 1..kp (lecturer 1, quotas 0..1) are ranked by nobody, lecturers 1..kl (quotas 0,0,1) offer nothing (or only *)
(* dummy projects); the built agents are renumbered s+ks, p+kp, l+kl.  Admissible matchings are the same up    *)
(* to renaming; the numbers in the file are large.  (For 2-agent files hospitals are projects: kl = kp.)        *)
ShiftSeq(q, d) == [i \in DOMAIN q |-> q[i] + d]
(* SPLIT embedding: a NEGATIVE first component -ks inserts the ks dummy students AFTER the first built student,  *)
(* so that the active students are numbered 1, ks+2, ks+3, ...: small and large numbers on the same lists.       *)
SplitNum(x, ks) == IF x = 1 THEN 1 ELSE x + ks
SplitFC(f, ks) ==
    [ f EXCEPT !.ns = f.ns + ks,
               !.prefs = [s \in 1 .. f.ns + ks |-> IF s = 1 THEN f.prefs[1] ELSE IF s <= ks + 1 THEN <<>> ELSE f.prefs[s - ks]],
               !.ranks = [s \in 1 .. f.ns + ks |-> IF s = 1 THEN f.ranks[1] ELSE IF s <= ks + 1 THEN <<>> ELSE f.ranks[s - ks]],
               !.lprefs = [l \in 1 .. f.nl |-> [i \in DOMAIN f.lprefs[l] |-> SplitNum(f.lprefs[l][i], ks)]] ]
(* CROWD embedding (3-agent files): a NEGATIVE second component -kd adds kd students ns+1 .. ns+kd whose only    *)
(* choice is a new project np+1 of upper quota 0 offered by lecturer 1; with second-side lists lecturer 1 ranks  *)
(* them after everybody else, strictly.  They can never be assigned and never block (the project is full with    *)
(* nobody in it), so the admissible matchings are those of the core with kd unassigned students appended - but   *)
(* lecturer 1's list is LONG.                                                                                    *)
CrowdFC(f, kd) ==
    LET top == IF f.lists /\ f.lranks[1] # <<>> THEN MaxSeq0(f.lranks[1]) ELSE 0 IN
    [ f EXCEPT !.ns = f.ns + kd, !.np = f.np + 1,
               !.prefs = [s \in 1 .. f.ns + kd |-> IF s <= f.ns THEN f.prefs[s] ELSE <<f.np + 1>>],
               !.ranks = [s \in 1 .. f.ns + kd |-> IF s <= f.ns THEN f.ranks[s] ELSE <<1>>],
               !.plq = Append(f.plq, 0), !.puq = Append(f.puq, 0), !.plec = Append(f.plec, 1),
               !.lprefs = IF f.lists THEN [f.lprefs EXCEPT ![1] = @ \o [i \in 1 .. kd |-> f.ns + i]] ELSE f.lprefs,
               !.lranks = IF f.lists THEN [f.lranks EXCEPT ![1] = @ \o [i \in 1 .. kd |-> top + i]] ELSE f.lranks ]
ShiftFC(f, sh) ==
    LET ks == sh[1]  kp == sh[2]  kl == IF f.na = 2 THEN sh[2] ELSE sh[3] IN
    IF ks < 0 THEN SplitFC(f, 0 - ks) ELSE
    IF sh[2] < 0 THEN CrowdFC(f, 0 - sh[2]) ELSE
    IF ks = 0 /\ kp = 0 /\ kl = 0 THEN f ELSE
    [ na |-> f.na, ns |-> f.ns + ks, np |-> f.np + kp, nl |-> f.nl + kl,
      prefs |-> [s \in 1 .. f.ns + ks |-> IF s <= ks THEN <<>> ELSE ShiftSeq(f.prefs[s - ks], kp)],
      ranks |-> [s \in 1 .. f.ns + ks |-> IF s <= ks THEN <<>> ELSE f.ranks[s - ks]],
      plq |-> [p \in 1 .. f.np + kp |-> IF p <= kp THEN 0 ELSE f.plq[p - kp]],
      puq |-> [p \in 1 .. f.np + kp |-> IF p <= kp THEN 1 ELSE f.puq[p - kp]],
      plec |-> [p \in 1 .. f.np + kp |-> IF p <= kp THEN (IF f.na = 2 THEN p ELSE 1) ELSE f.plec[p - kp] + kl],
      llq |-> [l \in 1 .. f.nl + kl |-> IF l <= kl THEN 0 ELSE f.llq[l - kl]],
      lt  |-> [l \in 1 .. f.nl + kl |-> IF l <= kl THEN (IF f.na = 2 THEN 1 ELSE 0) ELSE f.lt[l - kl]],
      luq |-> [l \in 1 .. f.nl + kl |-> IF l <= kl THEN 1 ELSE f.luq[l - kl]],
      lists |-> f.lists,
      lprefs |-> [l \in 1 .. f.nl + kl |-> IF l <= kl THEN <<>> ELSE ShiftSeq(f.lprefs[l - kl], ks)],
      lranks |-> [l \in 1 .. f.nl + kl |-> IF l <= kl THEN <<>> ELSE f.lranks[l - kl]] ]

ChooseOpts ==
    /\ b.stage = "opts"
    /\ \E pc \in PCs : \E stab \in Stabs : \E isbf \in BFs :
       \E cl \in (IF CritMode = "build" THEN {b.cl} ELSE CritLists) : \E pr \in Press :
       \E sty \in Styles : \E blk \in InfoBlocks : \E sh \in Shifts :
         LET twopl == b.sided = "two" IN
         /\ stab => twopl                           \* refusals are the business of MC_Options
         /\ isbf => cl = <<>> /\ ~stab /\ sh = <<0, 0, 0>>      \* brute force enumerates (np+1)^ns assignments: no dummies
         /\ Admissible(Denote(FCofB, twopl), cl)
         /\ pr = "gap" => Len(cl) <= 4
         /\ (Len(cl) <= 1 => pr = "id")
         /\ fc' = ShiftFC(FCofB, sh)
         /\ opts' = [na |-> NA, twopl |-> twopl, pc |-> pc, stab |-> stab, bf |-> isbf,
                     flags |-> Present(cl, pr), limit |-> 0]
         /\ style' = sty /\ block' = blk
         /\ b' = [b EXCEPT !.stage = "done"]
    /\ UNCHANGED <<phase, inst, crits, steps, F, k, vals, status, proven, elapsed, plan, result, nruns, bf>>

Built == b.stage = "done"

(* the solver machine on the built input (named so that TLC's coverage report lists them) *)
DoConstruct  == Built /\ Construct /\ UNCHANGED <<b, style, block>>
DoBeginSolve == Built /\ ExportMode = "run" /\ nruns = 0 /\ BeginSolve /\ UNCHANGED <<b, style, block>>
DoSolveStep  == SolveStep /\ UNCHANGED <<b, style, block>>
DoEndSolve   == EndSolve /\ UNCHANGED <<b, style, block>>
DoBFRun      == Built /\ ExportMode = "run" /\ nruns = 0 /\ BFRun /\ UNCHANGED <<b, style, block>>
Next ==
    \/ AddStudent \/ AddProject \/ AddLecturer \/ ChooseSided \/ AddList \/ AddCrit \/ EndCrits \/ ChooseOpts
    \/ DoConstruct \/ DoBeginSolve \/ DoSolveStep \/ DoEndSolve \/ DoBFRun
Spec == Init /\ [][Next]_vars

(* Termination (C02: "the solver terminates"): under weak fairness of the solver's own steps every run that  *)
(* has begun ends, and the number of underlying solves never exceeds what the criteria list needs.           *)
FairSpec == Spec /\ WF_vars(DoSolveStep) /\ WF_vars(DoEndSolve)
RunTerminates == [](phase = "solving" => <>(phase = "solved"))
SolvesBounded == phase \in {"solving", "solved"} /\ ~opts.bf => k <= NSolves(inst, crits)

-----------------------------------------------------------------------------
(* M1 obligations on the families *)
Text == Render(fc, StyleOf(style), block)

FamilyWellFormed == phase = "ready" => WellFormed(inst)
PosLosesNothing  == phase = "ready" /\ inst.ns <= 4 => Feasible(inst, opts.pc, opts.stab) = FeasibleAll(inst, opts.pc, opts.stab)
FamilyShaped     == phase = "ready" => Shaped(inst)      \* C10 only: numbers as written, in any order
ReadRender   == phase = "ready" /\ CheckText => ParseFile(Text, opts.na, opts.twopl) = inst
OptionsRefine == Built => MechRefinesDefs(opts.flags, opts.twopl, opts.stab)
IPRefines    == phase = "ready" /\ CheckIP /\ ~opts.bf => IPEqualsDefs(inst, opts.pc, opts.stab)
BoundsAdmit  == phase = "ready" /\ CheckIP /\ ~opts.bf =>
                    /\ ObjBoundsAdmit(inst, AllSteps(inst, crits))
                    /\ NamesUnique(AllSteps(inst, crits))

-----------------------------------------------------------------------------
(* export *)
RunOver == phase = "solving" /\ ~MoreSolves
F0 == Feasible(inst, opts.pc, opts.stab)
CapSeq(q, n) == SubSeq(q, 1, Min2(Len(q), n))
Common == [ na |-> opts.na, twopl |-> opts.twopl, pc |-> opts.pc, stab |-> opts.stab, bf |-> opts.bf,
            flags |-> opts.flags, text |-> Text, style |-> style, block |-> block ]
HistLP ==
    LET fin == SetToSeq(F) IN
    [ kind |-> "lp", o |-> Common, inst |-> inst, crits |-> crits, steps |-> steps,
      status |-> status, vals |-> vals, nsolves |-> k,
      nF0 |-> Cardinality(F0), nF |-> Cardinality(F),
      F0 |-> IF Detail THEN SetToSeq(F0) ELSE <<>>,
      V0 |-> IF Detail /\ opts.stab THEN SetToSeq(Feasible(inst, opts.pc, FALSE)) ELSE <<>>,
      Ffin |-> IF Detail \/ Cardinality(F) <= ReportCap THEN fin ELSE <<>>,
      reports |-> [i \in 1 .. Min2(Len(fin), ReportCap) |->
                      [m |-> fin[i], stats |-> StatsOf(inst, fin[i]), lists |-> ListingsOf(inst, fin[i]),
                       stable |-> IF inst.two THEN Stable(inst, fin[i]) ELSE TRUE]],
      critsStarted |-> CritsStarted ]
HistBF == [ kind |-> "bf", o |-> Common, inst |-> inst, res |-> bf.res ]
HistRefused == [ kind |-> "refused", o |-> Common ]

HistChecker ==
    LET ms == SetToSeq(UpperRespecting(inst)) IN
    [ kind |-> "checker", o |-> Common, inst |-> inst,
      cases |-> [i \in DOMAIN ms |-> [m |-> ms[i], stable |-> Stable(inst, ms[i]),
                                      valid |-> Valid(inst, ms[i], FALSE)]] ]
Export ==
    /\ (ExportMode = "run" /\ RunOver) => PrintT("EXPORT " \o ToJson(HistLP))
    /\ (ExportMode = "run" /\ phase = "solved" /\ opts.bf) => PrintT("EXPORT " \o ToJson(HistBF))
    /\ (ExportMode = "checker" /\ phase = "ready") => PrintT("EXPORT " \o ToJson(HistChecker))
    /\ (ExportMode = "load" /\ phase = "ready") => PrintT("EXPORT " \o ToJson([kind |-> "load", o |-> Common, inst |-> inst]))
(* in checker mode nothing needs to run after construction *)
StopAfterReady == ExportMode \in {"checker", "load"} => phase \in {"init", "ready", "refused"}
=============================================================================
