------------------------------ MODULE MC_Spread ------------------------------
(***************************************************************************)
(* Even spreading (C08): quotas, targets and projects per lecturer.        *)
(* Spread(n, total) gives every agent total \div n and the first            *)
(* total % n agents one more; SpreadAssign(np, nl) hands the projects to    *)
(* the lecturers in blocks of those sizes.  Laws, for all n <= MaxN and     *)
(* totals <= MaxTotal: the shares sum to the total, differ by at most one,  *)
(* larger shares come first; every project gets exactly one lecturer,       *)
(* lecturer numbers are non-decreasing along the projects and lecturer l    *)
(* receives Spread(nl, np)[l] projects.                                     *)
(***************************************************************************)
EXTENDS MPDefs, Json

CONSTANTS MaxN, MaxTotal
VARIABLES n, total, sp, phase
spvars == <<n, total, sp, phase>>

SInit0 == n \in 1 .. MaxN /\ total \in 0 .. MaxTotal /\ sp = <<>> /\ phase = "args"
Compute == /\ phase = "args" /\ sp' = Spread(n, total) /\ phase' = "done" /\ UNCHANGED <<n, total>>
SpSpec == SInit0 /\ [][Compute]_spvars

Done == phase = "done"
SumsToTotal   == Done => SumSeq(sp) = total
DifferByOne   == Done => \A i, j \in 1 .. n : sp[i] - sp[j] <= 1 /\ sp[j] - sp[i] <= 1
LargerFirst   == Done => \A i \in 1 .. n - 1 : sp[i] >= sp[i + 1]
NonNegative   == Done => \A i \in 1 .. n : sp[i] >= 0
(* total plays the role of the number of projects, n of the number of lecturers *)
AssignLaws == Done /\ total >= 1 =>
    LET pl == SpreadAssign(total, n) IN
    /\ \A p \in 1 .. total : pl[p] \in 1 .. n
    /\ \A p \in 1 .. total - 1 : pl[p] <= pl[p + 1]
    /\ \A l \in 1 .. n : Cardinality({p \in 1 .. total : pl[p] = l}) = sp[l]
Export == Done => PrintT("EXPORT " \o ToJson([n |-> n, total |-> total, spread |-> sp,
                                              assign |-> IF total >= 1 THEN SpreadAssign(total, n) ELSE <<>>]))
=============================================================================
