SPECIFICATION Spec
CONSTANTS
  N = 10
  Variants = {"rev", "two"}
  WithFiles = TRUE
INVARIANT WriterDepth
INVARIANT ParensOK
INVARIANT OrderPreserved
INVARIANT SameRankIffTied
INVARIANT DenseRanks
INVARIANT TextTiesAreTies
INVARIANT LastIrrelevant
INVARIANT FunctionalForm
INVARIANT RanksTiesInverse
INVARIANT FileRoundTrip
INVARIANT Export
CHECK_DEADLOCK FALSE
