------------------------------- MODULE MC_Ties -------------------------------
(***************************************************************************)
(* C13 / part of C10.  Writer and reader tie automata as a state machine,  *)
(* exhaustively over every list length 0..N and every indicator vector.    *)
(* TLC chooses (n, variant, ties) in Init, steps the WRITER one entry at a *)
(* time, hands the tokens to the READER, steps it one token at a time and  *)
(* exports the behaviour (tokens, ranks, and the list embedded in 2- and   *)
(* 3-agent files as a first-side and as a second-side list).               *)
(***************************************************************************)
EXTENDS MPText, Json

CONSTANTS N,            \* maximal list length
          Variants,     \* subset of {"rev", "two", "big"}: how list entries are chosen
          WithFiles,    \* TRUE: also render / parse the four embedding files
          LongNs        \* lengths of LONG lists whose decision vector is built bit by bit (for tlc -simulate); {} = none

VARIABLES list, ties, phase, w, r
vars == <<list, ties, phase, w, r>>

ListOf(n, v) == CASE v = "rev" -> [i \in 1 .. n |-> n - i + 1]     \* n..1
                  [] v = "two" -> [i \in 1 .. n |-> 7 + i]         \* 8, 9, 10, 11, ... (1 and 2 digits)
                  [] v = "big" -> [i \in 1 .. n |-> 97 + i]        \* 98, 99, 100, 101, ... (2 and 3 digits)

Init == \/ \E n \in 0 .. N : \E v \in Variants : \E t \in [1 .. n -> {0, 1}] :
             /\ list = ListOf(n, v) /\ ties = t
             /\ phase = "write" /\ w = WInit /\ r = RInit
        \/ \E n \in LongNs : \E v \in Variants :
             /\ list = ListOf(n, v) /\ ties = <<>>
             /\ phase = "build" /\ w = WInit /\ r = RInit

BuildTie ==   \* long lists: one tie decision per step
    /\ phase = "build"
    /\ \E bit \in {0, 1} : ties' = Append(ties, bit)
    /\ phase' = IF Len(ties) + 1 = Len(list) THEN "write" ELSE "build"
    /\ UNCHANGED <<list, w, r>>

WriterStep == /\ phase = "write" /\ w.i <= Len(list)
              /\ w' = WStep(list, ties, w)
              /\ UNCHANGED <<list, ties, phase, r>>
HandOver   == /\ phase = "write" /\ w.i > Len(list)
              /\ phase' = "read"
              /\ UNCHANGED <<list, ties, w, r>>
ReaderStep == /\ phase = "read" /\ r.i <= Len(w.out)
              /\ r' = RStep(w.out, r)
              /\ UNCHANGED <<list, ties, phase, w>>
Finish     == /\ phase = "read" /\ r.i > Len(w.out)
              /\ phase' = "end"
              /\ UNCHANGED <<list, ties, w, r>>
Next == BuildTie \/ WriterStep \/ HandOver \/ ReaderStep \/ Finish
Spec == Init /\ [][Next]_vars

(* bridge to the unbounded abstract model (spec/unbounded/TiesAbs.tla):    *)
(* every concrete step is a step of the finite abstraction                   *)
WriterBridge == [][WriterStep =>
                     LET last == w.i = Len(list)  tok == w'.out[Len(w'.out)] IN
                     /\ KindOfToken(tok) = AbsKind(w.inTie, ties[w.i], last)
                     /\ w'.inTie = AbsWIn(w.inTie, ties[w.i], last)]_vars
ReaderBridge == [][ReaderStep =>
                     LET kind == KindOfToken(w.out[r.i]) IN
                     /\ r'.inTie = AbsRIn(r.inTie, kind)
                     /\ r'.rank - r.rank = AbsRInc(r.inTie, kind)
                     /\ r'.rks[Len(r'.rks)] = r.rank]_vars
-----------------------------------------------------------------------------
n == Len(list)
MaxE == IF n = 0 THEN 1 ELSE Max(Rng(list))

(* Invariants of the writer while it runs.                                 *)
WriterDepth ==
    LET d == Depths(w.out) IN
    /\ \A i \in DOMAIN d : d[i] \in {0, 1}
    \* (the code leaves its in-tie flag set after closing a run at the last entry)
    /\ w.i <= Len(list) => (w.inTie <=> (w.out # <<>> /\ d[Len(w.out)] = 1))
    /\ Len(w.out) = w.i - 1

(* Laws at the end (C13).                                                  *)
AtEnd == phase = "end"
ParensOK       == AtEnd => ParensBalanced(w.out)
OrderPreserved == AtEnd => r.ents = list
SameRankIffTied == AtEnd => \A i \in 1 .. n - 1 : (r.rks[i] = r.rks[i+1]) <=> (ties[i] = 1)
DenseRanks     == AtEnd => IsDense(r.rks) /\ r.rks = RanksOfTies(ties)
TextTiesAreTies == AtEnd => \A i \in 1 .. n - 1 : TiedInText(w.out, i) <=> (ties[i] = 1)
LastIrrelevant == AtEnd /\ n > 0 =>
                    WriteTokens(list, [ties EXCEPT ![n] = 1 - @]) = w.out
FunctionalForm == AtEnd => WriteTokens(list, ties) = w.out /\ ReadTokens(w.out).rks = r.rks
RanksTiesInverse == AtEnd => \A i \in 1 .. n - 1 : TiesOfRanks(r.rks)[i] = ties[i]

-----------------------------------------------------------------------------
(* The list embedded in instance files.                                    *)
Empty(k) == [i \in 1 .. k |-> <<>>]
FCfirst(na) ==      \* student 1 has the list; other agents trivial
    [ na |-> na, ns |-> 1, np |-> MaxE, nl |-> 1,
      prefs |-> << list >>, ranks |-> << RanksOfTies(ties) >>,
      plq |-> [p \in 1 .. MaxE |-> 0], puq |-> [p \in 1 .. MaxE |-> 1],
      plec |-> [p \in 1 .. MaxE |-> 1],
      llq |-> <<0>>, lt |-> <<1>>, luq |-> <<1>>,
      lists |-> FALSE, lprefs |-> Empty(IF na = 2 THEN MaxE ELSE 1),
      lranks |-> Empty(IF na = 2 THEN MaxE ELSE 1) ]
FCsecond(na) ==     \* agent 1 of the second side has the list; listed students rank project 1
    [ na |-> na, ns |-> MaxE, np |-> 1, nl |-> 1,
      prefs |-> [s \in 1 .. MaxE |-> IF s \in Rng(list) THEN <<1>> ELSE <<>>],
      ranks |-> [s \in 1 .. MaxE |-> IF s \in Rng(list) THEN <<1>> ELSE <<>>],
      plq |-> <<0>>, puq |-> <<1>>, plec |-> <<1>>,
      llq |-> <<0>>, lt |-> <<1>>, luq |-> <<1>>,
      lists |-> TRUE, lprefs |-> << list >>, lranks |-> << RanksOfTies(ties) >> ]

FileRoundTrip ==
    AtEnd /\ WithFiles =>
      /\ \A na \in {2, 3} :
           LET I == ParseFile(Render(FCfirst(na), PlainStyle, TRUE), na, FALSE)
           IN  I = Denote(FCfirst(na), FALSE) /\ I.ranks[1] = r.rks /\ I.prefs[1] = list
      /\ \A na \in {2, 3} :
           LET I == ParseFile(Render(FCsecond(na), PlainStyle, TRUE), na, TRUE)
           IN  /\ I = Denote(FCsecond(na), TRUE)
               /\ \A i \in 1 .. n : I.lrank[1][list[i]] = r.rks[i]

Hist == [ list |-> list, ties |-> ties, toks |-> w.out, rks |-> r.rks,
          files |-> IF WithFiles
                    THEN << [na |-> 2, side |-> 1, text |-> Render(FCfirst(2), PlainStyle, TRUE)],
                            [na |-> 3, side |-> 1, text |-> Render(FCfirst(3), PlainStyle, FALSE)],
                            [na |-> 2, side |-> 2, text |-> Render(FCsecond(2), PlainStyle, FALSE)],
                            [na |-> 3, side |-> 2, text |-> Render(FCsecond(3), PlainStyle, TRUE)] >>
                    ELSE <<>> ]
Export == AtEnd => PrintT("EXPORT " \o ToJson(Hist))
=============================================================================
