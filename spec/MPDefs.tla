------------------------------- MODULE MPDefs -------------------------------
(***************************************************************************)
(* Declarative layer ("Defs") of the matchingproblems specification:       *)
(* WHAT is true of an SPA-STL instance.  No variables, no LP, no loops.    *)
(*                                                                         *)
(* An instance I is a record                                               *)
(*   ns, np, nl : numbers of students, projects, lecturers (all >= 1)      *)
(*   prefs      : <<list_1,...,list_ns>>, list_s a sequence of distinct    *)
(*                projects in 1..np (possibly empty)                       *)
(*   ranks      : same shape; dense ranks (tied entries share a rank,      *)
(*                ranks start at 1 and increase by one per tie group)      *)
(*   plq, puq   : project lower / upper quotas          (length np)        *)
(*   plec       : project -> lecturer                   (length np)        *)
(*   llq,lt,luq : lecturer lower quota, target, upper   (length nl)        *)
(*   two        : TRUE iff lecturer preference lists are in force          *)
(*   lrank      : <<row_1..row_nl>>, row_l[s] = rank of s for l, 0 = none  *)
(* A matching m is a sequence of length ns over 0..np (0 = unassigned),    *)
(* the "matching line" convention of the result text.                      *)
(***************************************************************************)
EXTENDS Integers, Sequences, FiniteSets, FiniteSetsExt, SequencesExt, TLC

Rng(f)     == {f[i] : i \in DOMAIN f}
Max2(a, b) == IF a >= b THEN a ELSE b
Min2(a, b) == IF a <= b THEN a ELSE b
Abs(a)     == IF a >= 0 THEN a ELSE -a
SumSeq(q)  == FoldLeft(LAMBDA acc, x : acc + x, 0, q)
MaxSeq0(q) == FoldLeft(LAMBDA acc, x : Max2(acc, x), 0, q)
PosOf(q, e) == CHOOSE i \in DOMAIN q : q[i] = e
(* concatenation of a sequence of sequences (iterative; the CommunityModules  *)
(* FlattenSeq recurses once per element and overflows the stack on 300 lines) *)
Concat(seqs) == FoldLeft(LAMBDA acc, x : acc \o x, <<>>, seqs)
(* ascending sequence of a finite set of integers (linear in the set; the   *)
(* CommunityModules SetToSortSeq enumerates all permutations)               *)
RECURSIVE SortedSeqOf(_)
SortedSeqOf(T) == IF T = {} THEN <<>> ELSE LET mn == Min(T) IN <<mn>> \o SortedSeqOf(T \ {mn})

S(I) == 1 .. I.ns
P(I) == 1 .. I.np
L(I) == 1 .. I.nl

-----------------------------------------------------------------------------
(* Well-formedness: the domain of the solver-side properties.              *)

IsDense(rk) ==
    /\ rk # <<>> => rk[1] = 1
    /\ \A i \in 1 .. Len(rk) - 1 : rk[i+1] = rk[i] \/ rk[i+1] = rk[i] + 1

(* Shaped: the record has the form of an instance; the NUMBERS need not be   *)
(* ordered (a file may state a target above the upper quota: the reader has *)
(* to read it as written, C10).  WellFormed adds the ordering of quotas and *)
(* targets that the solving properties presuppose.                          *)
NumbersOrdered(I) ==
    /\ \A p \in P(I) : I.plq[p] <= I.puq[p]
    /\ \A l \in L(I) : I.llq[l] <= I.lt[l] /\ I.lt[l] <= I.luq[l]
Shaped(I) ==
    /\ I.ns >= 1 /\ I.np >= 1 /\ I.nl >= 1
    /\ Len(I.prefs) = I.ns /\ Len(I.ranks) = I.ns
    /\ \A s \in S(I) :
          /\ Rng(I.prefs[s]) \subseteq P(I)
          /\ Cardinality(Rng(I.prefs[s])) = Len(I.prefs[s])
          /\ Len(I.ranks[s]) = Len(I.prefs[s])
          /\ IsDense(I.ranks[s])
    /\ Len(I.plq) = I.np /\ Len(I.puq) = I.np /\ Len(I.plec) = I.np
    /\ \A p \in P(I) : 0 <= I.plq[p] /\ 0 <= I.puq[p] /\ I.plec[p] \in L(I)
    /\ Len(I.llq) = I.nl /\ Len(I.lt) = I.nl /\ Len(I.luq) = I.nl
    /\ \A l \in L(I) : 0 <= I.llq[l] /\ 0 <= I.lt[l] /\ 0 <= I.luq[l]
    /\ Len(I.lrank) = I.nl
    /\ \A l \in L(I) : Len(I.lrank[l]) = I.ns
    /\ I.two =>
         \A l \in L(I) : \A s \in S(I) :
            (I.lrank[l][s] # 0) <=> (\E p \in Rng(I.prefs[s]) : I.plec[p] = l)
    /\ ~I.two => \A l \in L(I) : \A s \in S(I) : I.lrank[l][s] = 0

WellFormed(I) == Shaped(I) /\ NumbersOrdered(I)

-----------------------------------------------------------------------------
(* Matchings, validity, stability.                                         *)

Acc(I, s)       == Rng(I.prefs[s])
SRank(I, s, p)  == I.ranks[s][PosOf(I.prefs[s], p)]
LRank(I, l, s)  == I.lrank[l][s]
MaxRank(I)      == MaxSeq0([s \in S(I) |-> MaxSeq0(I.ranks[s])])

(* all assignments of students to acceptable projects or to nobody, built   *)
(* student by student (iteratively: instances may have hundreds of students  *)
(* with empty lists)                                                         *)
AllM(I) == FoldLeft(LAMBDA acc, s : {Append(m, c) : m \in acc, c \in {0} \cup Acc(I, s)},
                    {<<>>}, [s \in 1 .. I.ns |-> s])

AssignedP(I, m, p) == {s \in S(I) : m[s] = p}
AssignedL(I, m, l) == {s \in S(I) : m[s] # 0 /\ I.plec[m[s]] = l}
PCount(I, m, p)    == Cardinality(AssignedP(I, m, p))
LCount(I, m, l)    == Cardinality(AssignedL(I, m, l))

IsAssignment(I, m) == /\ Len(m) = I.ns
                      /\ \A s \in S(I) : m[s] = 0 \/ m[s] \in Acc(I, s)

Valid(I, m, pc) ==
    /\ IsAssignment(I, m)
    /\ \A p \in P(I) : LET c == PCount(I, m, p) IN
          IF pc THEN c = 0 \/ (c >= I.plq[p] /\ c <= I.puq[p])
                ELSE c >= I.plq[p] /\ c <= I.puq[p]
    /\ \A l \in L(I) : LET c == LCount(I, m, l) IN c >= I.llq[l] /\ c <= I.luq[l]

RespectsUpper(I, m) ==
    /\ IsAssignment(I, m)
    /\ \A p \in P(I) : PCount(I, m, p) <= I.puq[p]
    /\ \A l \in L(I) : LCount(I, m, l) <= I.luq[l]

(* SPA-STL blocking pair, conditions 2, 3a, 3b, 3c of the thesis.          *)
Wants(I, m, s, p) == m[s] # p /\ (m[s] = 0 \/ SRank(I, s, p) < SRank(I, s, m[s]))
Blocks(I, m, s, p) ==
    LET l  == I.plec[p]
        pu == PCount(I, m, p) < I.puq[p]
        lu == LCount(I, m, l) < I.luq[l]
    IN  /\ Wants(I, m, s, p)
        /\ \/ pu /\ lu
           \/ pu /\ ~lu /\ (\/ s \in AssignedL(I, m, l)
                            \/ \E t \in AssignedL(I, m, l) : LRank(I, l, s) < LRank(I, l, t))
           \/ ~pu /\ \E t \in AssignedP(I, m, p) : LRank(I, l, s) < LRank(I, l, t)
Stable(I, m)       == \A s \in S(I) : \A p \in Acc(I, s) : ~Blocks(I, m, s, p)
BlockingPairs(I,m) == {<<s, p>> \in S(I) \X P(I) : p \in Acc(I, s) /\ Blocks(I, m, s, p)}

(* candidates for VALID matchings: a project of upper quota 0 can never hold a student (Valid demands       *)
(* PCount <= upper quota, with or without closures), so such projects need not be tried; this keeps          *)
(* instances with a crowd of students ranking only a zero-capacity project enumerable                        *)
AllMPos(I) == FoldLeft(LAMBDA acc, s : {Append(m, c) : m \in acc, c \in {0} \cup {p \in Acc(I, s) : I.puq[p] > 0}},
                       {<<>>}, [s \in 1 .. I.ns |-> s])
Feasible(I, pc, stab) ==
    {m \in AllMPos(I) : Valid(I, m, pc) /\ (stab => Stable(I, m))}
(* the restriction loses nothing (checked on the exhaustive zero-capacity families) *)
FeasibleAll(I, pc, stab) == {m \in AllM(I) : Valid(I, m, pc) /\ (stab => Stable(I, m))}

-----------------------------------------------------------------------------
(* Statistics of a matching.                                               *)

Assigned(I, m) == {s \in S(I) : m[s] # 0}
Size(I, m)     == Cardinality(Assigned(I, m))
(* sums over students / lecturers as folds over 1..n (iterative) *)
SumOverS(I, m, val(_)) == SumSeq([s \in 1 .. I.ns |-> IF m[s] # 0 THEN val(s) ELSE 0])
CostS(I, m)    == SumOverS(I, m, LAMBDA s : SRank(I, s, m[s]))
CostL(I, m)    == IF I.two THEN SumOverS(I, m, LAMBDA s : LRank(I, I.plec[m[s]], s)) ELSE 0
SqCostS(I, m)  == SumOverS(I, m, LAMBDA s : SRank(I, s, m[s]) * SRank(I, s, m[s]))
SqCostL(I, m)  == IF I.two THEN SumOverS(I, m, LAMBDA s : LRank(I, I.plec[m[s]], s) * LRank(I, I.plec[m[s]], s))
                           ELSE 0
Degree(I, m)   == IF Assigned(I, m) = {} THEN 0
                  ELSE Max({SRank(I, s, m[s]) : s \in Assigned(I, m)})
AtRank(I, m, r) == Cardinality({s \in Assigned(I, m) : SRank(I, s, m[s]) = r})
Profile(I, m)  == [r \in 1 .. MaxRank(I) |-> AtRank(I, m, r)]
LecDiff(I, m, l) == Abs(LCount(I, m, l) - I.lt[l])
MaxDiff(I, m)  == Max({LecDiff(I, m, l) : l \in L(I)})
SumDiff(I, m)  == SumSeq([l \in 1 .. I.nl |-> LecDiff(I, m, l)])

-----------------------------------------------------------------------------
(* Optimisation criteria.                                                  *)
(* A criterion is [c |-> name, x |-> <<extra arguments>>].  It denotes a   *)
(* sequence of elementary objectives ("steps"), each [k, r, a, b, sense].  *)

CritNames == {"maxsize", "minsize", "gen", "gre", "mincost", "minsqcost",
              "lmb", "lsb", "mincostlsb"}

Arg(x, i, dflt) == IF Len(x) >= i THEN x[i] ELSE dflt

St(k, r, a, b, sense) == [k |-> k, r |-> r, a |-> a, b |-> b, sense |-> sense]

Steps(I, cr) ==
    LET x == cr.x  mr == MaxRank(I) IN
    CASE cr.c = "maxsize"   -> << St("size", 0, 0, 0, "max") >>
      [] cr.c = "minsize"   -> << St("size", 0, 0, 0, "min") >>
      [] cr.c = "gen"       -> LET lo == Max2(1, Arg(x, 1, 1)) IN
                               \* worst rank first, down to the cut-off
                               [i \in 1 .. Max2(0, mr - lo + 1) |-> St("rank", mr - i + 1, 0, 0, "min")]
      [] cr.c = "gre"       -> LET hi == Min2(mr, Arg(x, 1, mr)) IN
                               [i \in 1 .. Max2(0, hi) |-> St("rank", i, 0, 0, "max")]
      [] cr.c = "mincost"   -> << St("cost",    0, Arg(x, 1, 1), Arg(x, 2, 0), "min") >>
      [] cr.c = "minsqcost" -> << St("sqcost",  0, Arg(x, 1, 1), Arg(x, 2, 0), "min") >>
      [] cr.c = "lmb"       -> << St("lmb", 0, 0, 0, "min") >>
      [] cr.c = "lsb"       -> << St("lsb", 0, 0, 0, "min") >>
      [] cr.c = "mincostlsb"-> << St("costlsb", 0, Arg(x, 1, 1), Arg(x, 2, 1), "min") >>

StepVal(I, m, st) ==
    CASE st.k = "size"    -> Size(I, m)
      [] st.k = "rank"    -> AtRank(I, m, st.r)
      [] st.k = "cost"    -> st.a * CostS(I, m) + st.b * CostL(I, m)
      [] st.k = "sqcost"  -> st.a * SqCostS(I, m) + st.b * SqCostL(I, m)
      [] st.k = "lmb"     -> MaxDiff(I, m)
      [] st.k = "lsb"     -> SumDiff(I, m)
      [] st.k = "costlsb" -> st.a * CostS(I, m) + st.b * SumDiff(I, m)

AllSteps(I, crits) == Concat([i \in DOMAIN crits |-> Steps(I, crits[i])])

Better(st, v, w)   == IF st.sense = "max" THEN v > w ELSE v < w
BestVal(I, F, st)  == LET vs == {StepVal(I, m, st) : m \in F}
                      IN  IF st.sense = "max" THEN Max(vs) ELSE Min(vs)

(* Declarative lexicographic optimum: m is optimal iff no feasible m2 is   *)
(* strictly better at the first step where they differ.                    *)
LexBetter(I, steps, m2, m) ==
    \E i \in DOMAIN steps :
        /\ Better(steps[i], StepVal(I, m2, steps[i]), StepVal(I, m, steps[i]))
        /\ \A j \in 1 .. i - 1 : StepVal(I, m2, steps[j]) = StepVal(I, m, steps[j])
LexOptSet(I, F, steps) == {m \in F : \A m2 \in F : ~LexBetter(I, steps, m2, m)}

(* Profile orders used by brute force: more generous / more greedy.        *)
MoreGen(p1, p2) == \E i \in DOMAIN p1 : p1[i] < p2[i] /\ \A j \in i + 1 .. Len(p1) : p1[j] = p2[j]
MoreGre(p1, p2) == \E i \in DOMAIN p1 : p1[i] > p2[i] /\ \A j \in 1 .. i - 1 : p1[j] = p2[j]

-----------------------------------------------------------------------------
(* Even spreading of a total over n agents (generator quotas, targets and   *)
(* projects per lecturer).                                                 *)
Spread(n, total) == [i \in 1 .. n |-> (total \div n) + (IF i <= total % n THEN 1 ELSE 0)]
RECURSIVE CumSeq(_, _)       \* q[1] + ... + q[l]
CumSeq(q, l) == IF l = 0 THEN 0 ELSE q[l] + CumSeq(q, l - 1)
SpreadAssign(np, nl) ==      \* project -> lecturer, shares as even as possible, larger first
    LET cnt == Spread(nl, np)
    IN  [p \in 1 .. np |-> CHOOSE l \in 1 .. nl : CumSeq(cnt, l - 1) < p /\ p <= CumSeq(cnt, l)]


=============================================================================
