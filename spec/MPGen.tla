------------------------------- MODULE MPGen -------------------------------
(***************************************************************************)
(* The instance generator.                                                 *)
(*                                                                         *)
(* Arguments: a record a = [g |-> set of option names given on the command *)
(* line, v |-> [name |-> value]].  Tie probabilities are in twentieths     *)
(* (0..20 legal), the skew in halves; numbers are integers.  a.eps is an    *)
(* infinitesimal added to a tie probability: [t1 |-> e1, t2 |-> e2] with    *)
(* e in {-1, 0, 1} standing for -2^-40, 0, +2^-40 (a value a hair beyond a    *)
(* bound is still beyond it).                                                *)
(*                                                                         *)
(* Defs:  Required / Inapplicable / BoundsOK / Accepts : which argument    *)
(*        sets are accepted (C15); WellFormedFile: what an accepted run    *)
(*        may write (C08, C12).                                            *)
(* Mech:  ParseArgs (required/inapplicable tables, defaults, bound checks  *)
(*        in the order of the code, with explicit "no value"), MkDir, per  *)
(*        file: DrawLists, DrawTies, Invert+Shuffle, SpreadAll, WriteFile. *)
(***************************************************************************)
EXTENDS MPText

OptNames == {"n1", "n2", "n3", "pmin", "pmax", "t1", "t2", "lq", "uq", "llq", "lt", "luq", "twopl", "skew"}

(* Both documented spellings of every generator option (README, generator   *)
(* section): the accepted / rejected verdict and the files written do not   *)
(* depend on which spelling the caller uses.                                *)
GenShort == [numinst |-> "-numinst", o |-> "-o", mp |-> "-mp", twopl |-> "-twopl", skew |-> "-skew",
             n1 |-> "-n1", n2 |-> "-n2", n3 |-> "-n3", pmin |-> "-pmin", pmax |-> "-pmax", t1 |-> "-t1", t2 |-> "-t2",
             lq |-> "-lq", llq |-> "-llq", uq |-> "-uq", luq |-> "-luq", lt |-> "-lt"]
GenLong  == [numinst |-> "--numberinstances", o |-> "--outputdirectory", mp |-> "--matchingproblem",
             twopl |-> "--preferencelists2", skew |-> "--linearskew",
             n1 |-> "--numberofagents1", n2 |-> "--numberofagents2", n3 |-> "--numberofagents3",
             pmin |-> "--minpreflistlength", pmax |-> "--maxpreflistlength", t1 |-> "--ties1", t2 |-> "--ties2",
             lq |-> "--lowerquotas", llq |-> "--lecturerlowerquotas", uq |-> "--upperquotas",
             luq |-> "--lecturerupperquotas", lt |-> "--lecturertargets"]
GenOptNames(sp) == IF sp = "long" THEN GenLong ELSE GenShort
Types == {"ha", "sm", "hr", "spa"}

Required(mp) ==
    CASE mp = "ha"  -> {"n1", "n2", "pmin", "pmax", "uq"}
      [] mp = "sm"  -> {"n1", "pmin", "pmax", "twopl"}
      [] mp = "hr"  -> {"n1", "n2", "pmin", "pmax", "uq", "twopl"}
      [] mp = "spa" -> {"n1", "n2", "n3", "pmin", "pmax", "uq", "luq"}
Inapplicable(mp) ==
    CASE mp = "ha"  -> {"twopl", "n3", "t2", "llq", "luq", "lt"}
      [] mp = "sm"  -> {"n2", "n3", "uq", "lq", "llq", "luq", "lt"}
      [] mp = "hr"  -> {"n3", "llq", "luq", "lt"}
      [] mp = "spa" -> {}

Given(a, o) == o \in a.g
Val(a, o, dflt) == IF o \in a.g THEN a.v[o] ELSE dflt

(* effective values after defaults *)
N1(a)  == a.v["n1"]
N2(a)  == IF a.mp = "sm" THEN N1(a) ELSE a.v["n2"]
N3(a)  == IF a.mp = "spa" THEN a.v["n3"] ELSE N2(a)
LQ(a)  == Val(a, "lq", 0)
UQ(a)  == IF a.mp = "sm" THEN N1(a) ELSE a.v["uq"]      \* every woman has capacity one
LLQ(a) == Val(a, "llq", 0)
LT(a)  == Val(a, "lt", 0)
(* t/20 + e*2^-40 lies in [0, 1] *)
TieInRange(t, e) == (t > 0 \/ (t = 0 /\ e >= 0)) /\ (t < 20 \/ (t = 20 /\ e <= 0))
T1(a)  == Val(a, "t1", 0)
T2(a)  == Val(a, "t2", 0)
TwoSided(a) == Given(a, "twopl")

BoundsOK(a) ==
    /\ a.numinst >= 1
    /\ N1(a) >= 1 /\ N2(a) >= 1 /\ (a.mp = "spa" => N3(a) >= 1)
    /\ a.v["pmin"] >= 1 /\ a.v["pmin"] <= a.v["pmax"] /\ a.v["pmax"] <= N2(a)
    /\ TieInRange(T1(a), a.eps.t1) /\ TieInRange(T2(a), a.eps.t2)
    /\ LQ(a) >= 0 /\ UQ(a) >= N2(a) /\ LQ(a) <= UQ(a)
    /\ a.mp = "spa" => /\ LLQ(a) >= 0 /\ a.v["luq"] >= 1
                       /\ LLQ(a) <= LT(a) /\ LT(a) <= a.v["luq"]
Accepts(a) ==
    /\ Required(a.mp) \subseteq a.g
    /\ a.g \cap Inapplicable(a.mp) = {}
    /\ BoundsOK(a)

(* ---- Mech: the parser, check by check, "NoVal" = Python None ------------ *)
NoVal == -999
Raw(a, o) == IF o \in a.g THEN a.v[o] ELSE NoVal
MechParse(a) ==      \* "accept" | "usage" | "crash"
    LET n2d == IF a.mp = "sm" THEN Raw(a, "n1") ELSE Raw(a, "n2")
        uqd == IF a.mp = "sm" THEN Raw(a, "n1") ELSE Raw(a, "uq")      \* SM default: one partner each
        lqd == Val(a, "lq", 0)   llqd == Val(a, "llq", 0)   ltd == Val(a, "lt", 0)
        t1d == Val(a, "t1", 0)   t2d == Val(a, "t2", 0)
        luq == Raw(a, "luq")     n3r == Raw(a, "n3")
    IN  IF ~(Required(a.mp) \subseteq a.g) THEN "usage"
        ELSE IF a.g \cap Inapplicable(a.mp) # {} THEN "usage"
        ELSE IF a.numinst < 1 THEN "usage"
        ELSE IF a.v["n1"] < 1 THEN "usage"
        ELSE IF n2d # NoVal /\ n2d < 1 THEN "usage"
        ELSE IF n3r # NoVal /\ n3r < 1 THEN "usage"
        ELSE IF a.v["pmin"] < 1 \/ a.v["pmax"] < 1 THEN "usage"
        ELSE IF a.v["pmax"] < a.v["pmin"] THEN "usage"
        ELSE IF n2d = NoVal THEN "crash"                   \* comparison with no value
        ELSE IF a.v["pmax"] > n2d THEN "usage"
        ELSE IF ~TieInRange(t1d, a.eps.t1) \/ ~TieInRange(t2d, a.eps.t2) THEN "usage"
        ELSE IF lqd < 0 \/ llqd < 0 THEN "usage"
        ELSE IF uqd # NoVal /\ uqd < n2d THEN "usage"
        ELSE IF uqd = NoVal THEN "crash"
        ELSE IF lqd > uqd THEN "usage"
        ELSE IF luq # NoVal /\ luq < 1 THEN "usage"
        ELSE IF ltd < 0 THEN "usage"
        ELSE IF luq # NoVal /\ ltd > luq THEN "usage"
        ELSE IF llqd > ltd THEN "usage"
        ELSE "accept"
ParserRefines(a) == /\ MechParse(a) # "crash"
                    /\ (MechParse(a) = "accept") <=> Accepts(a)

-----------------------------------------------------------------------------
(* What an accepted run may write: well-formedness of ONE generated file    *)
(* content record fcg (see MPText) with respect to the arguments.           *)

NoTies(rk)  == \A i \in 1 .. Len(rk) - 1 : rk[i + 1] # rk[i]
AllTied(rk) == \A i \in DOMAIN rk : rk[i] = 1
IsPermOf(q, T) == Rng(q) = T /\ Len(q) = Cardinality(T)

ListsOK(a, f) ==
    /\ Len(f.prefs) = N1(a)
    /\ \A s \in 1 .. N1(a) :
         /\ Len(f.prefs[s]) >= a.v["pmin"] /\ Len(f.prefs[s]) <= a.v["pmax"]
         /\ Rng(f.prefs[s]) \subseteq 1 .. N2(a)
         /\ Cardinality(Rng(f.prefs[s])) = Len(f.prefs[s])
         /\ IsDense(f.ranks[s])
TiesOK(a, f) ==
    /\ T1(a) = 0 => \A s \in 1 .. N1(a) : NoTies(f.ranks[s])
    /\ T1(a) = 20 => \A s \in 1 .. N1(a) : AllTied(f.ranks[s])
    /\ f.lists /\ T2(a) = 0 => \A l \in DOMAIN f.lranks : NoTies(f.lranks[l])
    /\ f.lists /\ T2(a) = 20 => \A l \in DOMAIN f.lranks : AllTied(f.lranks[l])
QuotasOK(a, f) ==
    /\ f.plq = Spread(N2(a), LQ(a)) /\ f.puq = Spread(N2(a), UQ(a))
    /\ \A p \in 1 .. N2(a) : f.plq[p] <= f.puq[p]
    /\ a.mp = "spa" =>
         /\ f.plec = SpreadAssign(N2(a), N3(a))
         /\ f.llq = Spread(N3(a), LLQ(a)) /\ f.lt = Spread(N3(a), LT(a)) /\ f.luq = Spread(N3(a), a.v["luq"])
         /\ \A l \in 1 .. N3(a) : f.llq[l] <= f.lt[l] /\ f.lt[l] <= f.luq[l]
(* C12: a second-side agent lists exactly the first-side agents that find  *)
(* it acceptable, each exactly once.                                        *)
RankersG(a, f, l) ==
    {s \in 1 .. N1(a) : \E i \in DOMAIN f.prefs[s] :
         (IF a.mp = "spa" THEN f.plec[f.prefs[s][i]] ELSE f.prefs[s][i]) = l}
SecondSideOK(a, f) ==
    /\ f.lists <=> TwoSided(a)
    /\ f.lists => /\ Len(f.lprefs) = N3(a)
                  /\ \A l \in 1 .. N3(a) : IsPermOf(f.lprefs[l], RankersG(a, f, l)) /\ IsDense(f.lranks[l])
WellFormedFile(a, f) ==
    /\ f.na = (IF a.mp = "spa" THEN 3 ELSE 2)
    /\ f.ns = N1(a) /\ f.np = N2(a) /\ (a.mp = "spa" => f.nl = N3(a))
    /\ ListsOK(a, f) /\ TiesOK(a, f) /\ QuotasOK(a, f) /\ SecondSideOK(a, f)

(* Growth: the trailing parameter block echoes the accepted arguments       *)
(* (after defaults).  Values are rationals <<num, den>> in lowest terms.     *)
Gcd(a, b) == CHOOSE d \in 1 .. Max2(a, Max2(b, 1)) :
                /\ a % d = 0 /\ b % d = 0
                /\ \A e \in d + 1 .. Max2(a, Max2(b, 1)) : ~(a % e = 0 /\ b % e = 0)
Rat(a, b) == LET g == Gcd(a, b) IN <<a \div g, b \div g>>
BlockExpected(a) ==
    << <<"number_of_agents_type_1", Rat(N1(a), 1)>>, <<"number_of_agents_type_2", Rat(N2(a), 1)>> >>
    \o (IF a.mp = "spa" THEN << <<"number_of_agents_type_3", Rat(N3(a), 1)>> >> ELSE <<>>)
    \o << <<"min_pref_list_length", Rat(a.v["pmin"], 1)>>, <<"max_pref_list_length", Rat(a.v["pmax"], 1)>>,
           <<"ties_probability_1", Rat(T1(a), 20)>>, <<"ties_probability_2", Rat(T2(a), 20)>>,
           <<"sum_agent2_lower_quotas", Rat(LQ(a), 1)>>, <<"sum_agent2_upper_quotas", Rat(UQ(a), 1)>>,
           <<"skew_for_agent_1", Rat(Val(a, "skew", 2), 2)>> >>
    \o (IF a.mp = "spa" THEN << <<"sum_agent3_lower_quotas", Rat(LLQ(a), 1)>>, <<"sum_agent3_targets", Rat(LT(a), 1)>>,
                                 <<"sum_agent3_upper_quotas", Rat(a.v["luq"], 1)>> >> ELSE <<>>)

-----------------------------------------------------------------------------
(* Mech: the generator run as a state machine.                             *)
VARIABLES args, gphase, dir, files, cur
gvars == <<args, gphase, dir, files, cur>>
(* dir: "absent" | "present"; files: sequence of file content records that *)
(* were written; cur: the instance under construction.                     *)

NoCur == [stage |-> "none"]
GInit == gphase = "start" /\ dir = "absent" /\ files = <<>> /\ cur = NoCur

ParseArgs ==
    /\ gphase = "start"
    /\ gphase' = IF MechParse(args) = "accept" THEN "accepted" ELSE "rejected"
    /\ UNCHANGED <<args, dir, files, cur>>
MkDir ==
    /\ gphase = "accepted"
    /\ dir' = "present" /\ gphase' = "generating"
    /\ UNCHANGED <<args, files, cur>>

TieChoices(a, n, t) ==      \* indicator vectors a tie probability allows
    IF n = 0 THEN {<<>>}
    ELSE IF t = 0 THEN {[i \in 1 .. n |-> 0]}
    ELSE IF t = 20 THEN {[i \in 1 .. n |-> 1]}
    ELSE [1 .. n -> {0, 1}]

RECURSIVE DSeqs(_, _)
DSeqs(D, n) == IF n = 0 THEN {<<>>}
               ELSE UNION {{Append(qq, e) : e \in D \ Rng(qq)} : qq \in DSeqs(D, n - 1)}

(* one first-side list per step: length uniform in pmin..pmax, entries     *)
(* without replacement, then tie indicators                                 *)
DrawList ==
    /\ gphase = "generating" /\ Len(files) < args.numinst
    /\ cur.stage \in {"none", "lists"}
    /\ LET c == IF cur.stage = "none" THEN [stage |-> "lists", prefs |-> <<>>, ranks |-> <<>>] ELSE cur IN
       \E len \in args.v["pmin"] .. args.v["pmax"] : \E li \in DSeqs(1 .. N2(args), len) :
       \E t \in TieChoices(args, len, T1(args)) :
          cur' = [c EXCEPT !.prefs = Append(@, li), !.ranks = Append(@, RanksOfTies(t)),
                           !.stage = IF Len(c.prefs) + 1 = N1(args) THEN "second" ELSE "lists"]
    /\ UNCHANGED <<args, gphase, dir, files>>

(* invert the first-side lists, shuffle, tie; spread quotas; write the file *)
FinishFile ==
    /\ gphase = "generating" /\ cur.stage = "second"
    /\ LET a == args
           plec == IF a.mp = "spa" THEN SpreadAssign(N2(a), N3(a)) ELSE [p \in 1 .. N2(a) |-> p]
           pre == [ na |-> IF a.mp = "spa" THEN 3 ELSE 2, ns |-> N1(a), np |-> N2(a), nl |-> N3(a),
                    prefs |-> cur.prefs, ranks |-> cur.ranks, plec |-> plec,
                    plq |-> Spread(N2(a), LQ(a)), puq |-> Spread(N2(a), UQ(a)),
                    llq |-> IF a.mp = "spa" THEN Spread(N3(a), LLQ(a)) ELSE Spread(N2(a), LQ(a)),
                    lt  |-> IF a.mp = "spa" THEN Spread(N3(a), LT(a)) ELSE Spread(N2(a), UQ(a)),
                    luq |-> IF a.mp = "spa" THEN Spread(N3(a), a.v["luq"]) ELSE Spread(N2(a), UQ(a)),
                    lists |-> TwoSided(a) ]
           rankers(l) == {s \in 1 .. N1(a) : \E i \in DOMAIN cur.prefs[s] : plec[cur.prefs[s][i]] = l}
       IN
       IF ~TwoSided(a)
       THEN files' = Append(files, pre @@ [lprefs |-> [l \in 1 .. N3(a) |-> <<>>], lranks |-> [l \in 1 .. N3(a) |-> <<>>]])
       ELSE \E orders \in [1 .. N3(a) -> UNION {DSeqs(rankers(l), Cardinality(rankers(l))) : l \in 1 .. N3(a)}] :
            \E tv \in [1 .. N3(a) -> UNION {TieChoices(a, n, T2(a)) : n \in 0 .. N1(a)}] :
               /\ \A l \in 1 .. N3(a) : IsPermOf(orders[l], rankers(l)) /\ Len(tv[l]) = Len(orders[l])
               /\ files' = Append(files, pre @@ [lprefs |-> orders, lranks |-> [l \in 1 .. N3(a) |-> RanksOfTies(tv[l])]])
    /\ cur' = NoCur
    /\ gphase' = IF Len(files) + 1 = args.numinst THEN "done" ELSE "generating"
    /\ UNCHANGED <<args, dir>>

GNext == ParseArgs \/ MkDir \/ DrawList \/ FinishFile

(* C15 *)
RejectBeforeWrite == gphase = "rejected" => dir = "absent" /\ files = <<>>
AcceptWritesAll   == gphase = "done" => Len(files) = args.numinst /\ dir = "present"
ParserOK          == ParserRefines(args)
(* C08 / C12: everything written is well-formed *)
GenWellFormed == \A i \in DOMAIN files : WellFormedFile(args, files[i])
(* C09 (spec level): what is written reads back as the same instance *)
GenRoundTrip == \A i \in DOMAIN files :
                   LET f == files[i] IN
                   ParseFile(Render(f, PlainStyle, TRUE), f.na, f.lists) = Denote(f, f.lists)
=============================================================================
