------------------------------- MODULE MPIP -------------------------------
(***************************************************************************)
(* The integer program of the LP solver as data ("Mech" of C01, C02, C05): *)
(* 0/1 variables x over the pairs <<student, position>>, the constraint    *)
(* families of the implementation, and the bounded objective variables.    *)
(* TLC checks that the projection of the feasible set on x is exactly the  *)
(* set of valid (and stable) matchings of MPDefs - over ALL 0/1 points,    *)
(* including those that give a student two projects.                       *)
(***************************************************************************)
EXTENDS MPDefs

Pairs(I) == UNION {{<<s, j>> : j \in 1 .. Len(I.prefs[s])} : s \in S(I)}
PP(I, pr)  == I.prefs[pr[1]][pr[2]]             \* project of a pair
PL(I, pr)  == I.plec[PP(I, pr)]                 \* lecturer of a pair
PRs(I, pr) == I.ranks[pr[1]][pr[2]]             \* student rank of a pair
PRl(I, pr) == I.lrank[PL(I, pr)][pr[1]]         \* lecturer rank of a pair

Points(I) == [Pairs(I) -> {0, 1}]
SumX(x, Q) == MapThenSumSet(LAMBDA q : x[q], Q)

XofM(I, m) == [pr \in Pairs(I) |-> IF m[pr[1]] = PP(I, pr) THEN 1 ELSE 0]
(* the matching line of a point that gives every student at most one project *)
MofX(I, x) == [s \in S(I) |->
                 IF \E j \in 1 .. Len(I.prefs[s]) : x[<<s, j>>] = 1
                 THEN I.prefs[s][CHOOSE j \in 1 .. Len(I.prefs[s]) : x[<<s, j>>] = 1] ELSE 0]

(* ---- constraint families (upper_lower_constraints) -------------------- *)
StLimit(I, x) == \A s \in S(I) : SumX(x, {q \in Pairs(I) : q[1] = s}) <= 1
ProjQ(I, x, pc) ==
    \A p \in P(I) :
        LET cnt == SumX(x, {q \in Pairs(I) : PP(I, q) = p}) IN
        IF pc THEN \E c \in {0, 1} :                    \* closure variable of p
                      /\ cnt + c * I.plq[p] >= I.plq[p]
                      /\ cnt + c * I.puq[p] <= I.puq[p]
              ELSE cnt >= I.plq[p] /\ cnt <= I.puq[p]
LecQ(I, x) ==
    \A l \in L(I) :
        LET cnt == SumX(x, {q \in Pairs(I) : PL(I, q) = l})
        IN  cnt >= I.llq[l] /\ cnt <= I.luq[l]
BaseOK(I, x, pc) == StLimit(I, x) /\ ProjQ(I, x, pc) /\ LecQ(I, x)

(* ---- stability_constraints: alpha, beta, gamma per pair ---------------- *)
StabOK(I, x) ==
    \A pr \in Pairs(I) :
      LET s == pr[1]  l == PL(I, pr)  p == PP(I, pr)
          wants == 1 - SumX(x, {q \in Pairs(I) : q[1] = s /\ PRs(I, q) <= PRs(I, pr)})
          lkset == {q \in Pairs(I) : PL(I, q) = l /\ PRl(I, q) <= PRl(I, pr) /\ q[1] # s}
          lk == SumX(x, lkset)
          pj == SumX(x, {q \in lkset : PP(I, q) = p})
      IN  \E a \in {0, 1}, b \in {0, 1} :
              /\ lk - I.luq[l] * a >= 0
              /\ pj - I.puq[p] * b >= 0
              /\ wants - a - b <= 0

IPFeasible(I, pc, stab) == {x \in Points(I) : BaseOK(I, x, pc) /\ (stab => StabOK(I, x))}

(* M1 obligation for C01 / C05.                                            *)
IPEqualsDefs(I, pc, stab) ==
    IPFeasible(I, pc, stab) = {XofM(I, m) : m \in Feasible(I, pc, stab)}

(* ---- objective variables ----------------------------------------------- *)
(* upper bound given to the bounded integer objective variable of a step   *)
ObjUB(I, st) ==
    CASE st.k = "size"    -> I.ns
      [] st.k = "rank"    -> I.ns
      [] st.k = "cost"    -> I.ns * I.np * st.a + I.ns * I.ns * st.b
      [] st.k = "sqcost"  -> (I.ns * MaxRank(I)) * (I.ns * MaxRank(I)) * st.a
                             + (I.ns * I.ns) * (I.ns * I.ns) * st.b
      [] st.k = "lmb"     -> MaxSeq0(I.luq)
      [] st.k = "lsb"     -> SumSeq(I.luq)
      [] st.k = "costlsb" -> I.ns * I.np * st.a + SumSeq(I.luq) * st.b
ObjName(st) ==
    CASE st.k = "size"    -> IF st.sense = "max" THEN <<"obj_maxsize", 0>> ELSE <<"obj_minsize", 0>>
      [] st.k = "rank"    -> IF st.sense = "min" THEN <<"obj_generous_rank", st.r>> ELSE <<"obj_greedy_rank", st.r>>
      [] st.k = "cost"    -> <<"obj_mincost", 0>>
      [] st.k = "sqcost"  -> <<"obj_minsqcost", 0>>
      [] st.k = "lmb"     -> <<"lec_max_abs_diff", 0>>
      [] st.k = "lsb"     -> <<"lec_sum_abs_diff", 0>>
      [] st.k = "costlsb" -> <<"obj_mincostlsb", 0>>

(* M1 obligations for C02: every attainable value fits the variable, the   *)
(* per-lecturer deviation fits its variable, names are unique.             *)
ObjBoundsAdmit(I, steps) ==
    \A m \in {m \in AllM(I) : RespectsUpper(I, m)} :
        /\ \A i \in DOMAIN steps : StepVal(I, m, steps[i]) >= 0 /\ StepVal(I, m, steps[i]) <= ObjUB(I, steps[i])
        /\ \A l \in L(I) : LecDiff(I, m, l) <= I.luq[l]
NamesUnique(steps) == \A i, j \in DOMAIN steps : i # j => ObjName(steps[i]) # ObjName(steps[j])
=============================================================================
