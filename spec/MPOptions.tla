----------------------------- MODULE MPOptions -----------------------------
(***************************************************************************)
(* Solver command line: which option sets are refused, and in which order  *)
(* the requested criteria run (C16, C04).                                  *)
(*                                                                         *)
(* A flag is [c |-> criterion name, pos |-> position number, x |-> extras] *)
(* as written by the user; `flags` is the sequence of criterion flags in   *)
(* command-line order (each criterion at most once).                       *)
(*                                                                         *)
(* Defs:  Refused / OrderOf   - what must happen                           *)
(* Mech:  Place / Compact     - what the parser does: nine slots, every    *)
(*        flag is dropped into slot pos-1 (a later flag overwrites an      *)
(*        earlier one), empty slots are squeezed out, and a duplicate is   *)
(*        detected by comparing the number of survivors with the number of *)
(*        flags.                                                           *)
(***************************************************************************)
EXTENDS MPDefs

NSlots == 9
CritOrderCanon == <<"maxsize", "minsize", "gen", "gre", "mincost", "minsqcost", "lmb", "lsb", "mincostlsb">>

(* Both documented spellings of every solver option (README, solver section): *)
(* refusal and order do not depend on which spelling the caller uses.         *)
SolverShort == [f |-> "-f", na |-> "-na", twopl |-> "-twopl", pc |-> "-pc", stab |-> "-stab", bf |-> "-bf",
                maxsize |-> "-maxsize", minsize |-> "-minsize", gen |-> "-gen", gre |-> "-gre", mincost |-> "-mincost",
                minsqcost |-> "-minsqcost", mincostlsb |-> "-mincostlsb", lmb |-> "-lmb", lsb |-> "-lsb"]
SolverLong  == [f |-> "-filename", na |-> "-numagents", twopl |-> "-twosidedpreferencelists", pc |-> "-projectclosures",
                stab |-> "-stability", bf |-> "-bruteforce",
                maxsize |-> "-maximisesize", minsize |-> "-minimisesize", gen |-> "-generous", gre |-> "-greedy",
                mincost |-> "-minimisecost", minsqcost |-> "-minimisesquaredcost",
                mincostlsb |-> "-minimisecostloadsumbalanced", lmb |-> "-loadmaxbalanced", lsb |-> "-loadsumbalanced"]
SolverOptName(o, long) == IF long THEN SolverLong[o] ELSE SolverShort[o]

(* --------------------------- Defs ------------------------------------- *)
PosInRange(flags)  == \A i \in DOMAIN flags : flags[i].pos >= 1 /\ flags[i].pos <= NSlots
PosDistinct(flags) == \A i, j \in DOMAIN flags : i # j => flags[i].pos # flags[j].pos
Refused(flags, twopl, stab) ==
    \/ ~PosInRange(flags)
    \/ ~PosDistinct(flags)
    \/ stab /\ ~twopl

(* the criteria in increasing position order, extras kept with their criterion *)
RECURSIVE ByPos(_, _)        \* the indices D of flags, sorted by position number
ByPos(flags, D) == IF D = {} THEN <<>>
                   ELSE LET i == CHOOSE i \in D : \A j \in D : flags[i].pos <= flags[j].pos
                        IN  <<i>> \o ByPos(flags, D \ {i})
OrderOf(flags) ==
    LET idx == ByPos(flags, DOMAIN flags)
    IN  [k \in DOMAIN idx |-> [c |-> flags[idx[k]].c, x |-> flags[idx[k]].x]]

(* --------------------------- Mech ------------------------------------- *)
(* The parser looks at the criteria in the fixed order of its option table *)
(* (not in command-line order).                  *)
TableOrder(flags) ==
    LET present == {i \in DOMAIN flags : TRUE}
        at(name) == {i \in present : flags[i].c = name}
        names == SelectSeq(CritOrderCanon, LAMBDA nm : at(nm) # {})
    IN  [k \in DOMAIN names |-> flags[CHOOSE i \in at(names[k]) : TRUE]]

RECURSIVE Place(_, _, _)
Place(tf, k, slots) ==
    IF k > Len(tf) THEN slots
    ELSE Place(tf, k + 1, [slots EXCEPT ![tf[k].pos] = [c |-> tf[k].c, x |-> tf[k].x]])
EmptySlot  == [c |-> "", x |-> <<>>]
EmptySlots == [i \in 1 .. NSlots |-> EmptySlot]
Compact(slots) == SelectSeq(slots, LAMBDA e : e.c # "")

MechRefused(flags, twopl, stab) ==
    \/ ~PosInRange(flags)                                   \* checked first, before placing
    \/ Len(Compact(Place(TableOrder(flags), 1, EmptySlots))) # Len(flags)
    \/ stab /\ ~twopl
MechOrder(flags) == Compact(Place(TableOrder(flags), 1, EmptySlots))

(* Refinement obligations (checked by TLC over the position families).     *)
MechRefinesDefs(flags, twopl, stab) ==
    /\ MechRefused(flags, twopl, stab) <=> Refused(flags, twopl, stab)
    /\ ~Refused(flags, twopl, stab) => MechOrder(flags) = OrderOf(flags)

(* --------------------------- presentations ---------------------------- *)
(* How an ordered criteria list may be written on the command line:        *)
(*   "id"  : positions 1..n, flags in order                                *)
(*   "rev" : positions 1..n, flags in reverse order                        *)
(*   "gap" : positions 2,4,6,.. (9 for the fifth), flags rotated by one    *)
(*   "hi"  : the highest positions 9-n+1 .. 9, flags in reverse order       *)
GapPos(i, n) == IF 2 * i <= NSlots THEN 2 * i ELSE NSlots - (n - i)
Present(crits, pres) ==
    LET n == Len(crits)
        f(i, pos) == [c |-> crits[i].c, pos |-> pos, x |-> crits[i].x]
    IN  CASE pres = "id"  -> [i \in 1 .. n |-> f(i, i)]
          [] pres = "rev" -> [i \in 1 .. n |-> f(n - i + 1, n - i + 1)]
          [] pres = "gap" -> [i \in 1 .. n |-> LET j == (i % n) + 1 IN f(j, GapPos(j, n))]
          [] pres = "hi"  -> [i \in 1 .. n |-> f(n - i + 1, NSlots - i + 1)]
=============================================================================
