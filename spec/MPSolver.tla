----------------------------- MODULE MPSolver -----------------------------
(***************************************************************************)
(* The Solver object as a state machine, structured like the code:         *)
(*                                                                         *)
(*   Construct        options are parsed and checked, THEN the file is     *)
(*                    read (refusal happens before reading)                *)
(*   BeginSolve       constraints are added once: the admissible set F is  *)
(*                    the set of valid (and, on request, stable) matchings *)
(*   SolveStep        one underlying MILP solve: a new bounded objective,  *)
(*                    optimise, freeze the achieved value (F narrows);     *)
(*                    generous / greedy are one solve per rank; with no    *)
(*                    criterion there is one plain solve                   *)
(*   EndSolve         status of the run; the back end leaves SOME optimal  *)
(*                    solution in the variables (nondeterministic)         *)
(*   BFRun            brute-force mode: fold over all assignments          *)
(*   Get(kind)        result / debug getters: read-only                    *)
(*                                                                         *)
(* Faults (C14): every solve has an outcome; "ok" is the natural one, the  *)
(* others are what a MILP back end can exhibit.  Time is virtual: a solve  *)
(* takes plan[k].d time units (microseconds in MC_Faults), nothing else    *)
(* takes time; opts.limit is in the same unit.                             *)
(***************************************************************************)
EXTENDS MPText, MPOptions, MPIP, MPSolverAbs

(* opts, k, status, proven, elapsed, plan are declared in MPSolverAbs *)
VARIABLES
    fc,       \* file content record the run works on
    phase,    \* "init" | "refused" | "ready" | "solving" | "solved"
    inst,     \* instance as loaded (Denote(fc, twopl))
    crits,    \* ordered criteria
    steps,    \* elementary objectives of this run
    F,        \* matchings still admissible
    vals,     \* achieved (frozen) value of each solve
    result,   \* what the back end left in the variables after the run
    nruns,    \* number of completed solve() calls
    bf        \* brute-force accumulators (after BFRun)

svars == <<fc, opts, phase, inst, crits, steps, F, k, vals, status, proven, elapsed, plan, result, nruns, bf>>

NoInst == [ns |-> 0]
NoBF   == [done |-> FALSE]
Outcomes == {"ok", "Infeasible", "Unbounded", "Undefined", "Not Solved", "TLI"}

SInit == /\ phase = "init" /\ inst = NoInst /\ crits = <<>> /\ steps = <<>>
         /\ F = {} /\ k = 0 /\ vals = <<>> /\ status = "" /\ proven = TRUE
         /\ elapsed = 0 /\ result = <<>> /\ nruns = 0 /\ bf = NoBF

-----------------------------------------------------------------------------
Construct ==
    /\ phase = "init"
    /\ IF Refused(opts.flags, opts.twopl, opts.stab)
       THEN /\ phase' = "refused"
            /\ UNCHANGED <<inst, crits>>
       ELSE /\ phase' = "ready"
            /\ inst' = Denote(fc, opts.twopl)
            /\ crits' = OrderOf(opts.flags)
    /\ UNCHANGED <<fc, opts, steps, F, k, vals, status, proven, elapsed, plan, result, nruns, bf>>

(* number of underlying solves a criteria list needs on an instance *)
NSolves(I, cs) == Max2(1, Len(AllSteps(I, cs)))

(* Admissible criteria arguments (domain of C02-C04): non-negative         *)
(* multipliers, generous cut-off within 1..max rank, greedy cut-off >= 1.  *)
AdmissibleCrit(I, cr) ==
    /\ \A i \in DOMAIN cr.x : cr.x[i] >= 0
    /\ cr.c = "gen" /\ Len(cr.x) >= 1 => cr.x[1] >= 1 /\ cr.x[1] <= MaxRank(I)
    /\ cr.c = "gre" /\ Len(cr.x) >= 1 => cr.x[1] >= 1
Admissible(I, cs) == \A i \in DOMAIN cs : AdmissibleCrit(I, cs[i])

BeginSolve ==
    /\ phase \in {"ready", "solved"} /\ ~opts.bf
    /\ phase' = "solving"
    /\ steps' = AllSteps(inst, crits)
    /\ F' = Feasible(inst, opts.pc, opts.stab)
    /\ k' = 0 /\ vals' = <<>> /\ status' = "" /\ proven' = TRUE /\ elapsed' = 0
    /\ result' = <<>>
    /\ UNCHANGED <<fc, opts, inst, crits, plan, nruns, bf>>

(* does the run go on to another solve? *)
(* (with no elementary objective at all - no criterion, or generous/greedy *)
(* on an instance whose lists are all empty - there is one plain solve)    *)
MoreSolves == /\ (status = "" \/ status = "Optimal")
              /\ (IF steps = <<>> THEN k = 0 ELSE k < Len(steps))

Freeze(st, v) == {m \in F : ~Better(st, v, StepVal(inst, m, st))}

SolveStep ==
    /\ phase = "solving" /\ MoreSolves
    /\ LET pl == PlanAt(k + 1)
           plain == steps = <<>>
           st == IF plain THEN St("none", 0, 0, 0, "max") ELSE steps[k + 1]
       IN
       /\ k' = k + 1
       /\ elapsed' = elapsed + pl.d
       /\ CASE pl.o = "ok" /\ F # {} ->
                 LET v == IF plain THEN 0 ELSE BestVal(inst, F, st) IN
                 /\ status' = "Optimal"
                 /\ vals' = Append(vals, v)
                 /\ F' = IF plain THEN F ELSE Freeze(st, v)
                 /\ UNCHANGED proven
            [] pl.o = "ok" /\ F = {} ->
                 /\ status' = "Infeasible" /\ proven' = FALSE
                 /\ UNCHANGED <<vals, F>>
            [] pl.o = "TLI" ->
                 \* stopped by the time limit with an incumbent: reported as
                 \* Optimal, the frozen value is the incumbent's, not the optimum
                 /\ status' = IF F = {} THEN "Infeasible" ELSE "Optimal"
                 /\ proven' = FALSE
                 /\ IF F = {} \/ plain THEN UNCHANGED <<vals, F>>
                    ELSE \E inc \in F : LET v == StepVal(inst, inc, st) IN
                            /\ vals' = Append(vals, v)
                            /\ F' = Freeze(st, v)
            [] OTHER ->
                 /\ status' = pl.o /\ proven' = FALSE
                 /\ UNCHANGED <<vals, F>>
    /\ UNCHANGED <<fc, opts, phase, inst, crits, steps, plan, result, nruns, bf>>

EndSolve ==
    /\ phase = "solving" /\ ~MoreSolves
    /\ phase' = "solved"
    /\ nruns' = nruns + 1
    /\ IF status = "Optimal" /\ F # {} THEN \E m \in F : result' = m ELSE result' = <<>>
    /\ UNCHANGED <<fc, opts, inst, crits, steps, F, k, vals, status, proven, elapsed, plan, bf>>

-----------------------------------------------------------------------------
(* Brute force: the fold of the implementation, in product order (student  *)
(* 1 most significant, project numbers 0..np ascending).                   *)

RECURSIVE ProdSeq(_, _)
ProdSeq(I, s) ==      \* all assignments of students s..ns, as a sequence in product order
    IF s > I.ns THEN << <<>> >>
    ELSE LET rest == ProdSeq(I, s + 1)
         IN  Concat([c \in 1 .. I.np + 1 |-> [i \in DOMAIN rest |-> <<c - 1>> \o rest[i]]])

PairLess(a, b) == a[1] < b[1] \/ (a[1] = b[1] /\ a[2] < b[2])
ZeroProfile(I) == [r \in 1 .. MaxRank(I) |-> 0]

BFStep(I, pc, acc, m) ==
    IF ~Valid(I, m, pc) THEN acc
    ELSE
      LET size == Size(I, m)            cost == <<CostS(I, m), CostL(I, m)>>
          sq   == <<SqCostS(I, m), SqCostL(I, m)>>   deg == Degree(I, m)
          prof == Profile(I, m)         mx == MaxDiff(I, m)   sm == SumDiff(I, m)
          a1 == IF size > acc.size
                THEN [acc EXCEPT !.size = size, !.cost = cost, !.deg = deg, !.sq = sq, !.gen = prof, !.gremax = prof]
                ELSE acc
          a2 == IF size = a1.size
                THEN [a1 EXCEPT !.cost = IF PairLess(cost, @) THEN cost ELSE @,
                                !.deg = IF deg < @ THEN deg ELSE @,
                                !.sq = IF PairLess(sq, @) THEN sq ELSE @,
                                !.gen = IF MoreGen(prof, @) THEN prof ELSE @,
                                !.gremax = IF MoreGre(prof, @) THEN prof ELSE @]
                ELSE a1
      IN [a2 EXCEPT !.gre = IF MoreGre(prof, @) THEN prof ELSE @,
                    !.mx = IF mx < @ THEN mx ELSE @,
                    !.sm = IF sm < @ THEN sm ELSE @]

BFInitAcc(I) == [size |-> -1, cost |-> <<I.np * I.ns, I.np * I.ns>>, deg |-> I.np,
                 sq |-> <<I.np * I.np * I.ns, I.np * I.np * I.ns>>,
                 gen |-> ZeroProfile(I), gremax |-> ZeroProfile(I), gre |-> ZeroProfile(I),
                 mx |-> MaxSeq0(I.luq), sm |-> MaxSeq0(I.luq) * I.nl]
BFFold(I, pc) == FoldLeft(LAMBDA acc, m : BFStep(I, pc, acc, m), BFInitAcc(I), ProdSeq(I, 1))

(* Declarative optimum of every printed statistic (C07).                   *)
LexMinPairs(Q) == CHOOSE a \in Q : \A b \in Q : ~PairLess(b, a)
BFSpec(I, pc) ==
    LET V == {m \in AllM(I) : Valid(I, m, pc)} IN
    IF V = {} THEN [feasible |-> FALSE]
    ELSE LET ms == Max({Size(I, m) : m \in V})
             VM == {m \in V : Size(I, m) = ms}
             profsM == {Profile(I, m) : m \in VM}
             profs  == {Profile(I, m) : m \in V}
         IN [feasible |-> TRUE, size |-> ms,
             cost |-> LexMinPairs({<<CostS(I, m), CostL(I, m)>> : m \in VM}),
             deg  |-> Min({Degree(I, m) : m \in VM}),
             sq   |-> LexMinPairs({<<SqCostS(I, m), SqCostL(I, m)>> : m \in VM}),
             gen    |-> CHOOSE p \in profsM : \A q \in profsM : ~MoreGen(q, p),
             gremax |-> CHOOSE p \in profsM : \A q \in profsM : ~MoreGre(q, p),
             gre    |-> CHOOSE p \in profs : \A q \in profs : ~MoreGre(q, p),
             mx |-> Min({MaxDiff(I, m) : m \in V}),
             sm |-> Min({SumDiff(I, m) : m \in V})]

BFResultOf(acc) ==
    IF acc.size = -1 THEN [feasible |-> FALSE]
    ELSE [feasible |-> TRUE, size |-> acc.size, cost |-> acc.cost, deg |-> acc.deg, sq |-> acc.sq,
          gen |-> acc.gen, gremax |-> acc.gremax, gre |-> acc.gre, mx |-> acc.mx, sm |-> acc.sm]

BFRun ==
    /\ phase \in {"ready", "solved"} /\ opts.bf
    /\ phase' = "solved"
    /\ bf' = [done |-> TRUE, res |-> BFResultOf(BFFold(inst, opts.pc))]
    /\ nruns' = nruns + 1
    /\ UNCHANGED <<fc, opts, inst, crits, steps, F, k, vals, status, proven, elapsed, plan, result>>

-----------------------------------------------------------------------------
(* What the getters present (abstract content of the result text).         *)


StatsOf(I, m) ==
    [ matching |-> m, size |-> Size(I, m),
      cost |-> <<CostS(I, m), CostL(I, m)>>, cost_sq |-> <<SqCostS(I, m), SqCostL(I, m)>>,
      degree |-> Degree(I, m), profile |-> Profile(I, m),
      max_lec_abs_diff |-> MaxDiff(I, m), sum_lec_abs_diff |-> SumDiff(I, m) ]

ListingsOf(I, m) ==
    [ students  |-> [s \in S(I) |-> [p |-> m[s], l |-> IF m[s] = 0 THEN 0 ELSE I.plec[m[s]]]],
      projects  |-> [p \in P(I) |-> [l |-> I.plec[p], who |-> SortedSeqOf(AssignedP(I, m, p)),
                                     n |-> PCount(I, m, p), cap |-> I.puq[p]]],
      lecturers |-> [l \in L(I) |-> [who |-> SortedSeqOf(AssignedL(I, m, l)),
                                     n |-> LCount(I, m, l), cap |-> I.luq[l], target |-> I.lt[l]]] ]

(* number of "- optimisation:" lines: criteria started before the run stopped *)
CumSteps(I, cs, i) == SumSeq([t \in 1 .. i |-> Len(Steps(I, cs[t]))])
CritOfStep(I, cs, j) ==   \* index of the criterion that owns elementary step j
    CHOOSE i \in DOMAIN cs : CumSteps(I, cs, i) >= j /\ (i = 1 \/ CumSteps(I, cs, i - 1) < j)
(* -1: not specified (no elementary objective exists although criteria were *)
(* requested: generous/greedy on an instance whose lists are all empty)     *)
CritsStarted ==
    IF crits = <<>> THEN 0
    ELSE IF steps = <<>> THEN -1
    ELSE IF status = "Optimal" \/ status = "" THEN Len(crits)
    ELSE IF k = 0 THEN 0 ELSE CritOfStep(inst, crits, k)

Presented ==
    IF TimedOut THEN [t |-> "timeout", limit |-> opts.limit]
    ELSE IF status # "Optimal" THEN [t |-> "status", status |-> status]
    ELSE [t |-> "full", status |-> status, stats |-> StatsOf(inst, result)]

GetKinds == {"results", "short", "long", "debug"}
Get(kind) == /\ phase = "solved" /\ kind \in GetKinds
             /\ UNCHANGED svars

-----------------------------------------------------------------------------
(* Invariants of the solver machine (C01, C02, C03/C04, C05, C14).         *)

NoFaultsSoFar == \A i \in 1 .. k : PlanAt(i).o = "ok"

(* C01/C05: whatever is presented as a matching is valid (and stable).     *)
ReportedValid ==
    phase = "solved" /\ ~opts.bf /\ Presented.t = "full" =>
        /\ Valid(inst, result, opts.pc)
        /\ opts.stab => Stable(inst, result)

(* C02: without faults, Optimal iff some admissible matching exists.       *)
StatusIffFeasible ==
    phase = "solved" /\ ~opts.bf /\ NoFaultsSoFar =>
        (status = "Optimal") <=> (Feasible(inst, opts.pc, opts.stab) # {})

(* C03/C04: the freeze pipeline computes the declarative lexicographic     *)
(* optimum, for every ordered criteria list.                               *)
LexOptimal ==
    phase = "solved" /\ ~opts.bf /\ NoFaultsSoFar /\ status = "Optimal" =>
        F = LexOptSet(inst, Feasible(inst, opts.pc, opts.stab), steps)

(* C04: a later solve never changes the value frozen by an earlier one.    *)
FrozenHolds ==
    phase \in {"solving", "solved"} /\ NoFaultsSoFar /\ ~opts.bf /\ steps # <<>> =>
        \A i \in DOMAIN vals : \A m \in F : StepVal(inst, m, steps[i]) = vals[i]

(* C14: nothing unproven is ever presented as a matching.                  *)
NoMatchingUnlessAllProven ==
    phase = "solved" /\ ~opts.bf /\ Presented.t = "full" => proven /\ status = "Optimal"
(* the code's own guard: sound only because a time-limit stop takes at     *)
(* least `limit` seconds (plans that violate that are excluded by MC)      *)
FirstBadShown ==
    phase = "solved" /\ ~opts.bf /\ ~proven /\ ~TimedOut =>
        Presented.t = "status" /\ Presented.status # "Optimal"

-----------------------------------------------------------------------------
(* The stability CHECKER of the library (C06), structured like its loop:    *)
(* assignment counts, worst assigned lecturer-rank per project / lecturer   *)
(* with an explicit "nobody assigned" value, then conditions 2, 3a, 3b, 3c  *)
(* for every acceptable pair.                                               *)
Nobody == 0
WorstP(I, m, p) == IF AssignedP(I, m, p) = {} THEN Nobody
                   ELSE Max({LRank(I, I.plec[p], t) : t \in AssignedP(I, m, p)})
WorstL(I, m, l) == IF AssignedL(I, m, l) = {} THEN Nobody
                   ELSE Max({LRank(I, l, t) : t \in AssignedL(I, m, l)})
CheckerBlocks(I, m, s, j) ==
    LET p == I.prefs[s][j]   l == I.plec[p]
        bp2  == m[s] = 0 \/ I.ranks[s][j] < SRank(I, s, m[s])
        pu   == PCount(I, m, p) < I.puq[p]
        lu   == LCount(I, m, l) < I.luq[l]
        bp3a == pu /\ lu
        bp3b == pu /\ ~lu /\ (\/ (m[s] # 0 /\ I.plec[m[s]] = l)
                               \/ (WorstL(I, m, l) # Nobody /\ LRank(I, l, s) < WorstL(I, m, l)))
        bp3c == ~pu /\ WorstP(I, m, p) # Nobody /\ LRank(I, l, s) < WorstP(I, m, p)
    IN  bp2 /\ (bp3a \/ bp3b \/ bp3c)
CheckerTrue(I, m) == \A s \in S(I) : \A j \in 1 .. Len(I.prefs[s]) : ~CheckerBlocks(I, m, s, j)
UpperRespecting(I) == {m \in AllM(I) : RespectsUpper(I, m)}
CheckerEqDef == phase = "ready" /\ inst.two =>
                    \A m \in UpperRespecting(inst) : CheckerTrue(inst, m) <=> Stable(inst, m)

(* refinement of the abstract presentation machine (MPSolverAbs), the     *)
(* bridge to the unbounded TLAPS proof in spec/unbounded/FaultProofs.tla    *)
StepRefinesAbs  == [][SolveStep => AbsStep]_svars
BeginRefinesAbs == [][BeginSolve => AbsBegin]_svars

(* C07 *)
BFEqDef == phase = "solved" /\ opts.bf => bf.res = BFSpec(inst, opts.pc)
=============================================================================
