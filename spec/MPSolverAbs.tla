---------------------------- MODULE MPSolverAbs ----------------------------
(***************************************************************************)
(* The part of the solver machine that decides WHAT MAY BE PRESENTED:      *)
(* status of the most recent solve, whether every solve so far was proven  *)
(* optimal, virtual time, time limit, outcome plan.  It is free of          *)
(* recursive operators so that TLAPS can reason about it                    *)
(* (spec/unbounded/FaultProofs.tla); MPSolver.tla extends it, and TLC       *)
(* checks on the MC_Faults families that the real actions BeginSolve and    *)
(* SolveStep imply the abstract ones (StepRefinesAbs, BeginRefinesAbs).     *)
(***************************************************************************)
EXTENDS Integers, Sequences

VARIABLES
    opts,     \* [na, twopl, pc, stab, bf, flags, limit]  (limit 0 = no time limit)
    k,        \* number of underlying solves performed in this run
    status,   \* status of the most recent solve ("" before any)
    proven,   \* TRUE iff every solve so far ended with a proven optimum
    elapsed,  \* virtual time spent in the solves of this run
    plan      \* outcome plan: sequence of [o |-> outcome, d |-> duration]

PlanAt(i) == IF i \in DOMAIN plan THEN plan[i] ELSE [o |-> "ok", d |-> 0]

TimedOut   == opts.limit > 0 /\ (status = "Not Solved" \/ elapsed > opts.limit)
PresentedT == IF TimedOut THEN "timeout" ELSE IF status # "Optimal" THEN "status" ELSE "full"

(* abstract actions: only what the six variables may do *)
AbsBegin == /\ elapsed' = 0 /\ proven' = TRUE /\ status' = "" /\ k' = 0
            /\ opts' = opts /\ plan' = plan
AbsStep  == /\ status \in {"", "Optimal"}                   \* the run stops at the first status that is not Optimal
            /\ elapsed' = elapsed + PlanAt(k + 1).d
            /\ k' = k + 1 /\ opts' = opts /\ plan' = plan
            /\ \/ status' = "Optimal" /\ proven' = proven /\ PlanAt(k + 1).o = "ok"   \* a proven optimum
               \/ status' \notin {"Optimal", ""} /\ proven' = FALSE                      \* any failure
               \/ PlanAt(k + 1).o = "TLI" /\ proven' = FALSE /\ status' # ""          \* stopped by the limit (reported Optimal)

(* a time-limit stop takes longer than the limit; durations are naturals *)
PlanOK == \A i \in DOMAIN plan :
             /\ plan[i].d \in Nat
             /\ plan[i].o = "TLI" => (opts.limit > 0 /\ plan[i].d > opts.limit)

(* unproven but "Optimal" only beyond the limit *)
LateOrProven ==
    /\ elapsed \in Nat /\ opts.limit \in Nat /\ proven \in BOOLEAN
    /\ status = "" => proven
    /\ (~proven /\ status = "Optimal") => (opts.limit > 0 /\ elapsed > opts.limit)
=============================================================================
