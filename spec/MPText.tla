------------------------------- MODULE MPText -------------------------------
(***************************************************************************)
(* The instance file format at character level.                            *)
(*                                                                         *)
(*  - characters are integers 0..255 (TLC cannot index strings)            *)
(*  - WStep / WriteTokens : the generator's tie WRITER automaton           *)
(*  - RStep / ReadTokens  : the solver's tie READER automaton              *)
(*  - Render*             : file content record -> text                    *)
(*  - ParseFile           : text -> instance (what the file denotes)       *)
(*                                                                         *)
(* A file content record FC is                                             *)
(*   [na, ns, np, nl, prefs, ranks, plq, puq, plec, llq, lt, luq,          *)
(*    lists, lprefs, lranks]                                               *)
(* na = 2: np second-side agents (houses/women/hospitals); nl = np,        *)
(*         plec/llq/lt/luq are ignored on output and derived on input.     *)
(* lists = TRUE iff second-side preference lists are written; lprefs[l]    *)
(* is the list of agent l (hospital for na=2, lecturer for na=3) and       *)
(* lranks[l] its dense ranks.                                              *)
(***************************************************************************)
EXTENDS MPDefs

SPc == 32   TABc == 9   NLc == 10   COLONc == 58   LPARc == 40   RPARc == 41

IsBlank(c) == c = 32 \/ c = 9 \/ c = 13 \/ c = 11 \/ c = 12
IsDigit(c) == c >= 48 /\ c <= 57

RECURSIVE Digits(_)
Digits(n) == IF n < 10 THEN <<48 + n>> ELSE Digits(n \div 10) \o <<48 + (n % 10)>>

Num(tok)      == FoldLeft(LAMBDA acc, c : 10 * acc + (c - 48), 0, tok)
IsNum(tok)    == tok # <<>> /\ \A i \in DOMAIN tok : IsDigit(tok[i])
Has(tok, ch)  == \E i \in DOMAIN tok : tok[i] = ch
Strip(tok, ch) == SelectSeq(tok, LAMBDA c : c # ch)

-----------------------------------------------------------------------------
(* Tie indicators <-> dense ranks.  ties[i] = 1 means "entry i is tied     *)
(* with entry i+1"; the indicator of the last entry has no effect.         *)

RECURSIVE RankAt(_, _)       \* rank of entry i under the indicator vector t
RankAt(t, i) == IF i = 1 THEN 1 ELSE IF t[i-1] = 1 THEN RankAt(t, i-1) ELSE RankAt(t, i-1) + 1
RanksOfTies(t) == [i \in 1 .. Len(t) |-> RankAt(t, i)]
TiesOfRanks(rk) == [i \in 1 .. Len(rk) |-> IF i < Len(rk) /\ rk[i+1] = rk[i] THEN 1 ELSE 0]

-----------------------------------------------------------------------------
(* WRITER automaton (generator): one step per list entry.                  *)

WInit == [i |-> 1, inTie |-> FALSE, out |-> <<>>]
WStep(list, t, w) ==
    LET i == w.i  n == Len(list)  e == Digits(list[i]) IN
    IF ~w.inTie /\ t[i] = 1 /\ i < n
        THEN [i |-> i + 1, inTie |-> TRUE,  out |-> Append(w.out, <<LPARc>> \o e)]
    ELSE IF w.inTie /\ t[i] = 0
        THEN [i |-> i + 1, inTie |-> FALSE, out |-> Append(w.out, e \o <<RPARc>>)]
    ELSE IF i = n /\ w.inTie
        THEN [i |-> i + 1, inTie |-> TRUE,  out |-> Append(w.out, e \o <<RPARc>>)]
    ELSE     [i |-> i + 1, inTie |-> w.inTie, out |-> Append(w.out, e)]
RECURSIVE WRun(_, _, _)
WRun(list, t, w) == IF w.i > Len(list) THEN w ELSE WRun(list, t, WStep(list, t, w))
WriteTokens(list, t) == WRun(list, t, WInit).out

(* READER automaton (solver): one step per token.                          *)
RInit == [i |-> 1, inTie |-> FALSE, rank |-> 1, ents |-> <<>>, rks |-> <<>>]
RStep(tk, r) ==
    LET c == tk[r.i] IN
    IF Has(c, LPARc)
        THEN [r EXCEPT !.i = @ + 1, !.inTie = TRUE,
                       !.ents = Append(@, Num(Strip(c, LPARc))), !.rks = Append(@, r.rank)]
    ELSE IF Has(c, RPARc)
        THEN [r EXCEPT !.i = @ + 1, !.inTie = FALSE,
                       !.ents = Append(@, Num(Strip(c, RPARc))), !.rks = Append(@, r.rank),
                       !.rank = @ + 1]
    ELSE     [r EXCEPT !.i = @ + 1, !.ents = Append(@, Num(c)), !.rks = Append(@, r.rank),
                       !.rank = IF r.inTie THEN @ ELSE @ + 1]
RECURSIVE RRun(_, _)
RRun(tk, r) == IF r.i > Len(tk) THEN r ELSE RRun(tk, RStep(tk, r))
ReadTokens(tk) == LET r == RRun(tk, RInit) IN [ents |-> r.ents, rks |-> r.rks]

(* Finite abstraction of the two automata (token KINDS only: the entries    *)
(* and their digits are irrelevant to the tie structure).  `last` says       *)
(* whether the entry is the last of the list.  spec/unbounded/TiesAbs.tla    *)
(* model-checks the abstract product for lists of ANY length; MC_Ties.tla    *)
(* checks that every concrete WStep / RStep is an abstract step.             *)
KindOfToken(tok) == IF Has(tok, LPARc) THEN "open" ELSE IF Has(tok, RPARc) THEN "close" ELSE "plain"
AbsKind(wIn, t, last) == IF ~wIn /\ t = 1 /\ ~last THEN "open"
                         ELSE IF wIn /\ t = 0 THEN "close"
                         ELSE IF last /\ wIn THEN "close" ELSE "plain"
AbsWIn(wIn, t, last)  == IF ~wIn /\ t = 1 /\ ~last THEN TRUE
                         ELSE IF wIn /\ t = 0 THEN FALSE ELSE wIn
AbsRIn(rIn, kind)     == IF kind = "open" THEN TRUE ELSE IF kind = "close" THEN FALSE ELSE rIn
AbsRInc(rIn, kind)    == IF kind = "open" THEN 0 ELSE IF kind = "close" THEN 1 ELSE IF rIn THEN 0 ELSE 1

(* Laws of the writer output (C13), stated on the token sequence.          *)
RECURSIVE DepthAt(_, _)      \* parenthesis depth after token i
DepthAt(tk, i) == IF i = 0 THEN 0
                  ELSE DepthAt(tk, i-1) + (IF Has(tk[i], LPARc) THEN 1 ELSE 0) - (IF Has(tk[i], RPARc) THEN 1 ELSE 0)
Depths(tk) == [i \in 1 .. Len(tk) |-> DepthAt(tk, i)]
ParensBalanced(tk) ==
    /\ \A i \in DOMAIN tk : ~(Has(tk[i], LPARc) /\ Has(tk[i], RPARc))       \* runs have >= 2 entries
    /\ \A i \in DOMAIN tk : Depths(tk)[i] \in {0, 1}                         \* never nested
    /\ tk # <<>> => Depths(tk)[Len(tk)] = 0                                  \* balanced
    /\ \A i \in DOMAIN tk : Has(tk[i], LPARc) => tk[i][1] = LPARc /\ IsNum(Tail(tk[i]))
    /\ \A i \in DOMAIN tk : Has(tk[i], RPARc) => tk[i][Len(tk[i])] = RPARc /\ IsNum(SubSeq(tk[i], 1, Len(tk[i]) - 1))
(* Entry i is inside a parenthesised run together with entry i+1.          *)
TiedInText(tk, i) == Depths(tk)[i] = 1

-----------------------------------------------------------------------------
(* Lexing.                                                                 *)

SplitLines(text) ==
    LET r == FoldLeft(LAMBDA acc, c :
                 IF c = NLc THEN [done |-> Append(acc.done, acc.cur), cur |-> <<>>]
                            ELSE [done |-> acc.done, cur |-> Append(acc.cur, c)],
                 [done |-> <<>>, cur |-> <<>>], text)
    IN  IF r.cur = <<>> THEN r.done ELSE Append(r.done, r.cur)

SplitBlanks(line) ==
    LET r == FoldLeft(LAMBDA acc, c :
                 IF IsBlank(c)
                 THEN (IF acc.cur = <<>> THEN acc ELSE [done |-> Append(acc.done, acc.cur), cur |-> <<>>])
                 ELSE [done |-> acc.done, cur |-> Append(acc.cur, c)],
                 [done |-> <<>>, cur |-> <<>>], line)
    IN  IF r.cur = <<>> THEN r.done ELSE Append(r.done, r.cur)

(* A data line: colons are separators of no significance.                  *)
Fields(line) == SplitBlanks(Strip(line, COLONc))

-----------------------------------------------------------------------------
(* What a file denotes.                                                    *)

RowOfList(ns, ents, rks) ==
    [s \in 1 .. ns |-> IF \E i \in DOMAIN ents : ents[i] = s
                       THEN rks[CHOOSE i \in DOMAIN ents : ents[i] = s] ELSE 0]
ZeroRow(ns) == [s \in 1 .. ns |-> 0]

ParseFile(text, na, twopl) ==
    LET lines == SplitLines(text)
        hd    == SplitBlanks(lines[1])
        ns    == Num(hd[1])
        np    == Num(hd[2])
        nl    == IF na = 2 THEN np ELSE Num(hd[3])
        stl   == [s \in 1 .. ns |-> ReadTokens(Tail(Fields(lines[1 + s])))]
        pf    == [p \in 1 .. np |-> Fields(lines[1 + ns + p])]
        lf    == [l \in 1 .. nl |-> IF na = 2 THEN pf[l] ELSE Fields(lines[1 + ns + np + l])]
        first == IF na = 2 THEN 4 ELSE 5     \* first field of a second-side list
        ll    == [l \in 1 .. nl |-> IF twopl THEN ReadTokens(SubSeq(lf[l], first, Len(lf[l])))
                                             ELSE [ents |-> <<>>, rks |-> <<>>]]
    IN  [ ns |-> ns, np |-> np, nl |-> nl,
          prefs |-> [s \in 1 .. ns |-> stl[s].ents],
          ranks |-> [s \in 1 .. ns |-> stl[s].rks],
          plq   |-> [p \in 1 .. np |-> Num(pf[p][2])],
          puq   |-> [p \in 1 .. np |-> Num(pf[p][3])],
          plec  |-> [p \in 1 .. np |-> IF na = 2 THEN p ELSE Num(pf[p][4])],
          llq   |-> [l \in 1 .. nl |-> Num(lf[l][2])],
          lt    |-> [l \in 1 .. nl |-> IF na = 2 THEN Num(lf[l][3]) ELSE Num(lf[l][3])],
          luq   |-> [l \in 1 .. nl |-> IF na = 2 THEN Num(lf[l][3]) ELSE Num(lf[l][4])],
          two   |-> twopl,
          lrank |-> [l \in 1 .. nl |-> RowOfList(ns, ll[l].ents, ll[l].rks)] ]

(* The file CONTENT a text denotes, together with structural facts about   *)
(* the text (used to validate files written by the real generator).        *)
InfoHeader == <<105,110,115,116,97,110,99,101,32,103,101,110,101,114,97,116,105,111,110,32,
                112,97,114,97,109,101,116,101,114,115>>       \* "instance generation parameters"
ParseFC(text, na) ==
    LET lines == SplitLines(text)
        hd    == SplitBlanks(lines[1])
        ns    == Num(hd[1])
        np    == Num(hd[2])
        nl    == IF na = 2 THEN np ELSE Num(hd[3])
        need  == 1 + ns + np + (IF na = 2 THEN 0 ELSE nl)
        sf    == [s \in 1 .. ns |-> Fields(lines[1 + s])]
        pf    == [p \in 1 .. np |-> Fields(lines[1 + ns + p])]
        lf    == [l \in 1 .. nl |-> IF na = 2 THEN pf[l] ELSE Fields(lines[1 + ns + np + l])]
        first == IF na = 2 THEN 4 ELSE 5
        stl   == [s \in 1 .. ns |-> ReadTokens(Tail(sf[s]))]
        ltoks == [l \in 1 .. nl |-> SubSeq(lf[l], first, Len(lf[l]))]
        ll    == [l \in 1 .. nl |-> ReadTokens(ltoks[l])]
    IN  [ na |-> na, ns |-> ns, np |-> np, nl |-> nl,
          prefs |-> [s \in 1 .. ns |-> stl[s].ents], ranks |-> [s \in 1 .. ns |-> stl[s].rks],
          plq |-> [p \in 1 .. np |-> Num(pf[p][2])], puq |-> [p \in 1 .. np |-> Num(pf[p][3])],
          plec |-> [p \in 1 .. np |-> IF na = 2 THEN p ELSE Num(pf[p][4])],
          llq |-> [l \in 1 .. nl |-> Num(lf[l][2])],
          lt  |-> [l \in 1 .. nl |-> Num(lf[l][3])],
          luq |-> [l \in 1 .. nl |-> IF na = 2 THEN Num(lf[l][3]) ELSE Num(lf[l][4])],
          lists |-> \E l \in 1 .. nl : ltoks[l] # <<>>,
          lprefs |-> [l \in 1 .. nl |-> ll[l].ents], lranks |-> [l \in 1 .. nl |-> ll[l].rks],
          \* structural facts
          numbered |-> /\ \A s \in 1 .. ns : IsNum(sf[s][1]) /\ Num(sf[s][1]) = s
                       /\ \A p \in 1 .. np : IsNum(pf[p][1]) /\ Num(pf[p][1]) = p
                       /\ \A l \in 1 .. nl : IsNum(lf[l][1]) /\ Num(lf[l][1]) = l,
          projfields |-> \A p \in 1 .. np : IF na = 2 THEN Len(pf[p]) >= 3 ELSE Len(pf[p]) = 4,
          parens |-> /\ \A s \in 1 .. ns : ParensBalanced(Tail(sf[s]))
                     /\ \A l \in 1 .. nl : ParensBalanced(ltoks[l]),
          block |-> /\ Len(lines) >= need + 2 /\ lines[need + 1] = <<>> /\ lines[need + 2] = InfoHeader ]
StructureOK(text, na) ==      \* enough well-shaped lines to parse at all
    LET lines == SplitLines(text) IN
    /\ Len(lines) >= 1
    /\ LET hd == SplitBlanks(lines[1]) IN
       /\ Len(hd) = na /\ \A i \in DOMAIN hd : IsNum(hd[i])
       /\ LET ns == Num(hd[1])  np == Num(hd[2])  nl == IF na = 2 THEN 0 ELSE Num(hd[3]) IN
          /\ Len(lines) >= 1 + ns + np + nl
          /\ \A i \in 2 .. 1 + ns : Len(Fields(lines[i])) >= 1
          /\ \A i \in 2 + ns .. 1 + ns + np : Len(Fields(lines[i])) >= (IF na = 2 THEN 3 ELSE 4)
          /\ \A i \in 2 + ns + np .. 1 + ns + np + nl : Len(Fields(lines[i])) >= 4
          /\ \A i \in 2 .. 1 + ns + np + nl : \A j \in DOMAIN Fields(lines[i]) :
                 LET tk == Fields(lines[i])[j] IN IsNum(Strip(Strip(tk, LPARc), RPARc))

(* The instance a file CONTENT record denotes (independent of text).       *)
Denote(FC, twopl) ==
    LET two2 == FC.na = 2 IN
    [ ns |-> FC.ns, np |-> FC.np, nl |-> IF two2 THEN FC.np ELSE FC.nl,
      prefs |-> FC.prefs, ranks |-> FC.ranks,
      plq |-> FC.plq, puq |-> FC.puq,
      plec |-> IF two2 THEN [p \in 1 .. FC.np |-> p] ELSE FC.plec,
      llq  |-> IF two2 THEN FC.plq ELSE FC.llq,
      lt   |-> IF two2 THEN FC.puq ELSE FC.lt,
      luq  |-> IF two2 THEN FC.puq ELSE FC.luq,
      two  |-> twopl,
      lrank |-> [l \in 1 .. (IF two2 THEN FC.np ELSE FC.nl) |->
                    IF twopl /\ FC.lists THEN RowOfList(FC.ns, FC.lprefs[l], FC.lranks[l])
                    ELSE ZeroRow(FC.ns)] ]

-----------------------------------------------------------------------------
(* Rendering.  A style is [sep, lead, trail, colsep, eol]: blank sequences  *)
(* between list entries, around a line and after ':', and the line end     *)
(* (LF, or CR LF as written on Windows).                                   *)

PlainStyle == [sep |-> <<32>>, lead |-> <<>>, trail |-> <<>>, colsep |-> <<32>>, eol |-> <<10>>]

Join(toks, sep) ==
    FoldLeft(LAMBDA acc, t : IF acc = <<>> THEN t ELSE acc \o sep \o t, <<>>, toks)

ListText(list, rks, st) == Join(WriteTokens(list, TiesOfRanks(rks)), st.sep)

Field(n, st) == Digits(n) \o <<COLONc>> \o st.colsep

LineOf(body, st) == st.lead \o body \o st.trail \o st.eol

(* The generator's trailing block is free text for the reader; a fixed     *)
(* sample ("instance generation parameters\nnumber_of_agents_type_1: 2\n") *)
(* is enough to show it is ignored.                                        *)
InfoBlock == << 10, 105,110,115,116,97,110,99,101,32,103,101,110,101,114,97,116,105,111,110,32,
                112,97,114,97,109,101,116,101,114,115,10,
                110,117,109,98,101,114,95,111,102,95,97,103,101,110,116,115,95,116,121,112,101,95,49,58,32,50,10 >>

Render(FC, st, block) ==
    LET hdr == IF FC.na = 2 THEN Digits(FC.ns) \o st.sep \o Digits(FC.np)
                            ELSE Digits(FC.ns) \o st.sep \o Digits(FC.np) \o st.sep \o Digits(FC.nl)
        stl == [s \in 1 .. FC.ns |->
                   LineOf(Field(s, st) \o ListText(FC.prefs[s], FC.ranks[s], st), st)]
        pl  == [p \in 1 .. FC.np |->
                   IF FC.na = 2
                   THEN LineOf(Field(p, st) \o Field(FC.plq[p], st) \o Field(FC.puq[p], st)
                               \o (IF FC.lists THEN ListText(FC.lprefs[p], FC.lranks[p], st) ELSE <<>>), st)
                   ELSE LineOf(Field(p, st) \o Field(FC.plq[p], st) \o Field(FC.puq[p], st)
                               \o Digits(FC.plec[p]), st)]
        lecl == IF FC.na = 2 THEN <<>>
                ELSE [l \in 1 .. FC.nl |->
                   LineOf(Field(l, st) \o Field(FC.llq[l], st) \o Field(FC.lt[l], st) \o Field(FC.luq[l], st)
                          \o (IF FC.lists THEN ListText(FC.lprefs[l], FC.lranks[l], st) ELSE <<>>), st)]
        full == LineOf(hdr, st) \o Concat(stl) \o Concat(pl) \o Concat(lecl)
                \o (IF block THEN InfoBlock ELSE <<>>)
    IN  \* a style may carry final |-> FALSE: the last line of the file has no line end
        IF "final" \in DOMAIN st /\ ~st.final /\ full[Len(full)] = 10 THEN SubSeq(full, 1, Len(full) - 1) ELSE full

=============================================================================
