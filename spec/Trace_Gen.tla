------------------------------ MODULE Trace_Gen ------------------------------
(***************************************************************************)
(* Trace validation (code -> specification) for the generator: C08, C12.   *)
(* A trace is one run of the REAL Generator: the argument vector and the   *)
(* bytes of every file it wrote.  For each trace the MPGen actions are      *)
(* taken with the logged values: ParseArgs must accept, MkDir, and for each *)
(* logged file the random draws are read back from the text and the guards *)
(* of DrawList / FinishFile (= the clauses of WellFormedFile) are evaluated *)
(* one by one.  The verdict is TOTAL: every trace gets the list of its      *)
(* failing clauses; traces are validated in parallel (one initial state per *)
(* trace), the verdicts are printed as JSON lines.                          *)
(***************************************************************************)
EXTENDS MPGen, Json, IOUtils

Traces == JsonDeserialize(IOEnv.TRACE_FILE)

VARIABLE tid
tvars == <<gvars, tid>>

ArgsOf(t) == [mp |-> t.args.mp, numinst |-> t.args.numinst, eps |-> [t1 |-> 0, t2 |-> 0], g |-> Rng(t.args.given),
              v |-> [o \in OptNames |-> t.args.v[o]]]

(* clauses of one file, evaluated on the file content read back from text *)
FileClauses(a, text) ==
    LET na == IF a.mp = "spa" THEN 3 ELSE 2 IN
    IF ~StructureOK(text, na) THEN {"structure"}
    ELSE LET f == ParseFC(text, na) IN
      (IF f.ns = N1(a) /\ f.np = N2(a) /\ (na = 3 => f.nl = N3(a)) THEN {} ELSE {"header_counts"})
      \cup (IF f.numbered THEN {} ELSE {"lines_numbered"})
      \cup (IF f.projfields THEN {} ELSE {"project_line_fields"})
      \cup (IF f.block THEN {} ELSE {"param_block"})
      \cup (IF f.parens THEN {} ELSE {"parens"})
      \cup (IF f.ns = N1(a) /\ f.np = N2(a) /\ (na = 3 => f.nl = N3(a))
            THEN (IF ListsOK(a, f) THEN {} ELSE {"lists"})
                 \cup (IF TiesOK(a, f) THEN {} ELSE {"ties"})
                 \cup (IF QuotasOK(a, f) THEN {} ELSE {"quotas_spread"})
                 \cup (IF f.lists <=> TwoSided(a) THEN {} ELSE {"second_side_iff_twosided"})
                 \cup (IF ~f.lists \/ (/\ Len(f.lprefs) = N3(a)
                                      /\ \A l \in 1 .. N3(a) : IsPermOf(f.lprefs[l], RankersG(a, f, l)))
                       THEN {} ELSE {"second_side_exactly_rankers"})
            ELSE {})

TraceClauses(t) ==
    LET a == ArgsOf(t) IN
    (IF MechParse(a) = "accept" /\ Accepts(a) THEN {} ELSE {"spec_rejects_accepted_run"})
    \cup (IF Len(t.files) = a.numinst THEN {} ELSE {"file_count"})
    \cup (IF t.listing = [i \in 1 .. a.numinst |-> i - 1] THEN {} ELSE {"file_names"})
    \cup UNION {FileClauses(a, t.files[i]) : i \in DOMAIN t.files}
    \* growth: the parameter block (lexically parsed by the harness into <<key, <<num, den>>>>) echoes the arguments
    \cup (IF \A i \in DOMAIN t.blocks : t.blocks[i] = BlockExpected(a) THEN {} ELSE {"param_block_echo"})

LensOfFile(a, text) ==
    LET na == IF a.mp = "spa" THEN 3 ELSE 2 IN
    IF ~StructureOK(text, na) THEN {}
    ELSE LET pr == ParseFC(text, na).prefs IN {Len(pr[s]) : s \in DOMAIN pr}
Lens(t) == LET a == ArgsOf(t) IN UNION {LensOfFile(a, t.files[i]) : i \in DOMAIN t.files}

TInit == /\ tid \in 1 .. Len(Traces)
         /\ args = ArgsOf(Traces[tid]) /\ gphase = "start" /\ dir = "absent" /\ files = <<>> /\ cur = NoCur
(* the base actions, taken with the logged outcome *)
TNext == /\ (ParseArgs \/ MkDir) /\ UNCHANGED tid
TSpec == TInit /\ [][TNext]_tvars

Verdict == gphase = "generating" \/ gphase = "rejected" =>
    PrintT("VERDICT " \o ToJson([tid |-> tid, fails |-> SetToSeq(TraceClauses(Traces[tid])),
                                 lens |-> SetToSeq(Lens(Traces[tid]))]))
=============================================================================
