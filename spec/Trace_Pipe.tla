------------------------------ MODULE Trace_Pipe ------------------------------
(***************************************************************************)
(* Trace validation (code -> specification) of complete solver runs:       *)
(* C09 (generate -> solve pipeline), and the real-CBC parts of C01-C05.    *)
(* A trace is one execution of the REAL solver on a file chosen by a       *)
(* driver TLC did not control (the repository's generator, the shipped     *)
(* Evaluations instances, random larger instances), with the real CBC.     *)
(* The trace carries the bytes of the file, the options, the instance as   *)
(* loaded (documented Model attributes), the objective value of every      *)
(* underlying solve, the final status and the printed results.  The        *)
(* MPSolver actions are taken on the instance the SPECIFICATION reads from *)
(* the bytes; the logged observations are then judged clause by clause.    *)
(***************************************************************************)
EXTENDS MPSolver, Json, IOUtils

Traces == JsonDeserialize(IOEnv.TRACE_FILE)

VARIABLE tid
pvars == <<svars, tid>>

T == Traces[tid]

PInit == /\ tid \in 1 .. Len(Traces)
         /\ LET t == Traces[tid] IN
            /\ fc = [na |-> t.na]
            /\ opts = [na |-> t.na, twopl |-> t.twopl, pc |-> t.pc, stab |-> t.stab, bf |-> t.bf,
                       flags |-> Present(t.crits, "id"), limit |-> 0]
            /\ inst = IF t.construct = "ok" THEN ParseFile(t.text, t.na, t.twopl) ELSE NoInst
            /\ crits = t.crits
            /\ phase = IF t.construct = "ok" THEN "ready" ELSE "refused"
         /\ steps = <<>> /\ F = {} /\ k = 0 /\ vals = <<>> /\ status = "" /\ proven = TRUE
         /\ elapsed = 0 /\ result = <<>> /\ nruns = 0 /\ bf = NoBF /\ plan = <<>>

(* the back end's choice is the logged matching *)
EndSolveLogged == EndSolve /\ (result' = T.matching \/ (result' = <<>> /\ T.matching = <<>>))
(* load-only traces (files too large to solve inside TLC): Construct is the whole behaviour *)
PNext == /\ ~T.loadonly
         /\ (BeginSolve \/ SolveStep \/ BFRun \/ (nruns = 0 /\ EndSolveLogged)) /\ nruns = 0
         /\ UNCHANGED tid
PSpec == PInit /\ [][PNext]_pvars

RunOver == phase = "solving" /\ ~MoreSolves
Judged == RunOver \/ phase = "refused" \/ (phase = "solved" /\ opts.bf) \/ (T.loadonly /\ phase = "ready")

(* Archive traces: result files shipped with the repository under Evaluations/ *)
(* (written by an older version: scalar student costs, no size line, no loaded  *)
(* instance, no objective values).                                              *)
ArchiveLPFails ==
    (IF WellFormed(inst) THEN {} ELSE {"file_is_well_formed_instance"})
    \cup (IF T.status = status THEN {} ELSE {"status_iff_feasible"})
    \cup (IF status = "Optimal" /\ T.status = "Optimal"
          THEN (IF Valid(inst, T.matching, opts.pc) THEN {} ELSE {"matching_valid"})
               \cup (IF opts.stab /\ ~(Len(T.matching) = inst.ns /\ IsAssignment(inst, T.matching) /\ Stable(inst, T.matching))
                     THEN {"matching_stable"} ELSE {})
               \cup (IF T.matching \in F THEN {} ELSE {"matching_lexoptimal"})
               \cup (IF opts.stab /\ T.stabline # "True" THEN {"stability_correct_true"} ELSE {})
               \cup (IF Valid(inst, T.matching, opts.pc) /\
                        ~(LET m == T.matching IN
                          /\ T.stats.cost = CostS(inst, m) /\ T.stats.cost_sq = SqCostS(inst, m)
                          /\ T.stats.degree = Degree(inst, m) /\ T.stats.profile = Profile(inst, m)
                          /\ T.stats.max_lec_abs_diff = MaxDiff(inst, m) /\ T.stats.sum_lec_abs_diff = SumDiff(inst, m))
                     THEN {"printed_statistics"} ELSE {})
          ELSE (IF T.matching = <<>> THEN {} ELSE {"no_matching_when_infeasible"}))
ArchiveBFFails ==
    IF ~bf.res.feasible \/ ~T.bfres.feasible THEN (IF bf.res.feasible = T.bfres.feasible THEN {} ELSE {"bf_equals_optimum"})
    ELSE IF /\ T.bfres.size = bf.res.size /\ T.bfres.cost = bf.res.cost[1] /\ T.bfres.deg = bf.res.deg
            /\ T.bfres.sq = bf.res.sq[1] /\ T.bfres.gen = bf.res.gen /\ T.bfres.gremax = bf.res.gremax
            /\ T.bfres.gre = bf.res.gre /\ T.bfres.mx = bf.res.mx /\ T.bfres.sm = bf.res.sm
         THEN {} ELSE {"bf_equals_optimum"}

LPFails ==
    (IF T.loaded = inst THEN {} ELSE {"loaded_equals_file"})
    \cup (IF WellFormed(inst) THEN {} ELSE {"file_is_well_formed_instance"})
    \cup (IF T.exception = "" THEN {} ELSE {"no_exception"})
    \cup (IF T.status = status THEN {} ELSE {"status_iff_feasible"})
    \cup (IF status = "Optimal" /\ T.status = "Optimal"
          THEN (IF Valid(inst, T.matching, opts.pc) THEN {} ELSE {"matching_valid"})
               \cup (IF opts.stab /\ ~(Len(T.matching) = inst.ns /\ IsAssignment(inst, T.matching) /\ Stable(inst, T.matching))
                     THEN {"matching_stable"} ELSE {})
               \cup (IF T.matching \in F THEN {} ELSE {"matching_lexoptimal"})
               \cup (IF T.objvals = vals THEN {} ELSE {"optimum_values"})
               \cup (IF opts.stab /\ T.stabline # "True" THEN {"stability_correct_true"} ELSE {})
               \cup (IF Valid(inst, T.matching, opts.pc) /\ T.stats # StatsOf(inst, T.matching)
                     THEN {"printed_statistics"} ELSE {})
          ELSE (IF T.matching = <<>> THEN {} ELSE {"no_matching_when_infeasible"}))
BFFails ==
    (IF T.loaded = inst THEN {} ELSE {"loaded_equals_file"})
    \cup (IF T.exception = "" THEN {} ELSE {"no_exception"})
    \cup (IF T.exception = "" /\ T.bfres # bf.res THEN {"bf_equals_optimum"} ELSE {})

LoadFails ==
    (IF T.loaded = inst THEN {} ELSE {"loaded_equals_file"})
    \cup (IF WellFormed(inst) THEN {} ELSE {"file_is_well_formed_instance"})
Fails == IF phase = "refused" THEN {"loads_without_error"}
         ELSE IF T.loadonly THEN LoadFails
         ELSE IF T.archive THEN (IF opts.bf THEN ArchiveBFFails ELSE ArchiveLPFails)
         ELSE IF opts.bf THEN BFFails ELSE LPFails

Verdict == Judged => PrintT("VERDICT " \o ToJson([tid |-> tid, fails |-> SetToSeq(Fails),
                                                 nF0 |-> IF phase = "refused" \/ opts.bf THEN 0 ELSE Cardinality(F)]))     \* size of the final admissible set
=============================================================================
