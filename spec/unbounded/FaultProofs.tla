---------------------------- MODULE FaultProofs ----------------------------
(***************************************************************************)
(* Unbounded proof (TLAPS) of the fact C14 rests on, over the presentation *)
(* machine MPSolverAbs.tla that MPSolver.tla extends: a run whose status is *)
(* Optimal although some solve was not proven optimal (a time-limit stop    *)
(* with an incumbent is the only way) has already exceeded the time limit - *)
(* provided a time-limit stop takes longer than the limit (PlanOK).  Hence, *)
(* for EVERY instance, criteria list and outcome plan, whatever is          *)
(* presented as a matching was proven optimal (PresentedFullIsProven).      *)
(* TLC checks StepRefinesAbs / BeginRefinesAbs (the real BeginSolve and     *)
(* SolveStep imply AbsBegin and AbsStep) on the MC_Faults families.         *)
(***************************************************************************)
EXTENDS MPSolverAbs, TLAPS

THEOREM BeginEstablishes == ASSUME opts.limit \in Nat, AbsBegin PROVE LateOrProven'
  BY DEF AbsBegin, LateOrProven

THEOREM StepPreserves == ASSUME LateOrProven, PlanOK, AbsStep PROVE LateOrProven'
<1> DEFINE pl == PlanAt(k + 1)
<1>1. opts' = opts /\ plan' = plan
  BY DEF AbsStep
<1>2. pl.d \in Nat /\ (pl.o = "TLI" => (opts.limit > 0 /\ pl.d > opts.limit))
  BY DEF PlanOK, PlanAt
<1>3. elapsed' = elapsed + pl.d
  BY DEF AbsStep
<1>4. elapsed' \in Nat /\ elapsed' >= elapsed
  BY <1>2, <1>3 DEF LateOrProven
<1>0. status \in {"", "Optimal"}
  BY DEF AbsStep
<1>5. CASE status' = "Optimal" /\ proven' = proven /\ pl.o = "ok"
  BY <1>5, <1>0, <1>1, <1>4 DEF LateOrProven
<1>6. CASE status' \notin {"Optimal", ""} /\ proven' = FALSE
  BY <1>6, <1>1, <1>4 DEF LateOrProven
<1>7. CASE pl.o = "TLI" /\ proven' = FALSE /\ status' # ""
  <2>1. opts.limit > 0 /\ elapsed' > opts.limit
    BY <1>7, <1>2, <1>3 DEF LateOrProven
  <2> QED BY <1>7, <2>1, <1>1, <1>4 DEF LateOrProven
<1> QED BY <1>5, <1>6, <1>7 DEF AbsStep

THEOREM StutterPreserves == ASSUME LateOrProven, UNCHANGED <<opts, k, status, proven, elapsed, plan>> PROVE LateOrProven'
  BY DEF LateOrProven

(* the consequence C14 needs: what is presented in full was proven optimal *)
THEOREM PresentedFullIsProven == ASSUME LateOrProven, PresentedT = "full" PROVE proven /\ status = "Optimal"
  BY DEF LateOrProven, PresentedT, TimedOut
=============================================================================
