---------------------------- MODULE SpreadProofs ----------------------------
(***************************************************************************)
(* Unbounded proofs (TLAPS) of the laws of even spreading that C08 relies  *)
(* on; TLC checks the same laws - and the sum law - for n <= 12, total <=  *)
(* 60 in MC_Spread.tla.  Spread is copied verbatim from MPDefs.tla.        *)
(***************************************************************************)
EXTENDS Integers, NaturalsInduction, TLAPS

Spread(n, total) == [i \in 1 .. n |-> (total \div n) + (IF i <= total % n THEN 1 ELSE 0)]

THEOREM SpreadDomain ==
    ASSUME NEW n \in Nat \ {0}, NEW total \in Nat
    PROVE  DOMAIN Spread(n, total) = 1 .. n
BY DEF Spread

THEOREM SpreadDiffersByAtMostOne ==
    ASSUME NEW n \in Nat \ {0}, NEW total \in Nat, NEW i \in 1 .. n, NEW j \in 1 .. n
    PROVE  /\ Spread(n, total)[i] - Spread(n, total)[j] <= 1
           /\ Spread(n, total)[j] - Spread(n, total)[i] <= 1
BY DEF Spread

THEOREM SpreadLargerSharesFirst ==
    ASSUME NEW n \in Nat \ {0}, NEW total \in Nat, NEW i \in 1 .. n, NEW j \in 1 .. n, i <= j
    PROVE  Spread(n, total)[i] >= Spread(n, total)[j]
BY DEF Spread

THEOREM SpreadNonNegative ==
    ASSUME NEW n \in Nat \ {0}, NEW total \in Nat, NEW i \in 1 .. n
    PROVE  Spread(n, total)[i] >= 0
<1>1. total \div n >= 0
  OBVIOUS
<1> QED BY <1>1 DEF Spread

(* lower <= target <= upper is preserved by spreading: if a <= b then every *)
(* agent's share of a is at most its share of b.                            *)
THEOREM SpreadMonotoneInTotal ==
    ASSUME NEW n \in Nat \ {0}, NEW a \in Nat, NEW b \in Nat, a <= b, NEW i \in 1 .. n
    PROVE  Spread(n, a)[i] <= Spread(n, b)[i]
<1>1. a = n * (a \div n) + (a % n) /\ a % n \in 0 .. n - 1
  OBVIOUS
<1>2. b = n * (b \div n) + (b % n) /\ b % n \in 0 .. n - 1
  OBVIOUS
<1>3. a \div n <= b \div n
  <2> DEFINE qa == a \div n
             qb == b \div n
  <2>0. qa \in Nat /\ qb \in Nat
    OBVIOUS
  <2>1. SUFFICES ASSUME qa >= qb + 1 PROVE FALSE
    BY <2>0
  <2> DEFINE d == qa - qb - 1
  <2>3. d \in Nat /\ qa = qb + 1 + d
    BY <2>0, <2>1
  <2>4. n * qa = n * qb + n + n * d
    BY <2>0, <2>3
  <2>5. n * d >= 0
    BY <2>3
  <2>6. a >= n * qb + n
    BY <1>1, <2>4, <2>5
  <2>7. b < n * qb + n
    BY <1>2
  <2> QED BY <2>6, <2>7
<1>4. CASE a \div n = b \div n
  <2>1. a % n <= b % n
    BY <1>1, <1>2, <1>4
  <2> QED BY <2>1, <1>4 DEF Spread
<1>5. CASE a \div n < b \div n
  BY <1>5 DEF Spread
<1> QED BY <1>3, <1>4, <1>5

(***************************************************************************)
(* The shares sum to the total.  PartialSum(s)[k] = s[1] + ... + s[k].     *)
(***************************************************************************)
PartialSum(s) == CHOOSE g : g = [k \in Nat |-> IF k = 0 THEN 0 ELSE g[k - 1] + s[k]]

LEMMA PartialSumDef ==
    ASSUME NEW s
    PROVE  PartialSum(s) = [k \in Nat |-> IF k = 0 THEN 0 ELSE PartialSum(s)[k - 1] + s[k]]
<1> DEFINE Def(v, k) == v + s[k]
           f == PartialSum(s)
<1>1. NatInductiveDefHypothesis(f, 0, Def)
  BY DEF NatInductiveDefHypothesis, PartialSum
<1>2. NatInductiveDefConclusion(f, 0, Def)
  BY <1>1, NatInductiveDef
<1> QED BY <1>2 DEF NatInductiveDefConclusion

THEOREM SpreadSumsToTotal ==
    ASSUME NEW n \in Nat \ {0}, NEW total \in Nat
    PROVE  PartialSum(Spread(n, total))[n] = total
<1> DEFINE q == total \div n
           r == total % n
           sp == Spread(n, total)
           P == PartialSum(sp)
           Q(k) == k <= n => P[k] = k * q + (IF k <= r THEN k ELSE r)
<1>0. q \in Nat /\ r \in 0 .. n - 1 /\ total = n * q + r
  <2>1. total = n * (total \div n) + (total % n) /\ total % n \in 0 .. n - 1
    OBVIOUS
  <2>2. total \div n \in Nat
    OBVIOUS
  <2> QED BY <2>1, <2>2
<1>1. P = [k \in Nat |-> IF k = 0 THEN 0 ELSE P[k - 1] + sp[k]]
  BY PartialSumDef
<1>2. Q(0)
  <2>1. P[0] = 0
    BY <1>1
  <2> QED BY <2>1, <1>0
<1>3. ASSUME NEW k \in Nat, Q(k) PROVE Q(k + 1)
  <2>1. SUFFICES ASSUME k + 1 <= n PROVE P[k + 1] = (k + 1) * q + (IF k + 1 <= r THEN k + 1 ELSE r)
    OBVIOUS
  <2>2. P[k + 1] = P[k] + sp[k + 1]
    <3>1. k + 1 \in Nat /\ k + 1 # 0 /\ (k + 1) - 1 = k
      OBVIOUS
    <3> QED BY <3>1, <1>1
  <2>3. sp[k + 1] = q + (IF k + 1 <= r THEN 1 ELSE 0)
    BY <2>1 DEF Spread
  <2>4. P[k] = k * q + (IF k <= r THEN k ELSE r)
    BY <1>3, <2>1
  <2>5. (k + 1) * q = k * q + q
    BY <1>0
  <2>6. k * q \in Nat
    BY <1>0
  <2> HIDE DEF q, r, sp, P
  <2>7. CASE k + 1 <= r
    BY <2>7, <2>2, <2>3, <2>4, <2>5, <2>6, <1>0
  <2>8. CASE k + 1 > r
    <3>1. k >= r
      BY <2>8, <1>0
    <3>2. (IF k <= r THEN k ELSE r) = r
      BY <3>1, <1>0
    <3> QED BY <2>8, <3>2, <2>2, <2>3, <2>4, <2>5, <2>6, <1>0
  <2> QED BY <2>7, <2>8, <1>0
<1>4. \A k \in Nat : Q(k)
  <2> HIDE DEF Q
  <2> QED BY <1>2, <1>3, NatInduction, Isa
<1>5. Q(n)
  BY <1>4
<1>6. P[n] = n * q + r
  BY <1>5, <1>0
<1> QED BY <1>6, <1>0
=============================================================================
