------------------------------ MODULE TiesAbs ------------------------------
(***************************************************************************)
(* C13 for lists of ANY length.  The tie structure of the text depends only *)
(* on token kinds (open / close / plain), so writer and reader can be       *)
(* abstracted to a FINITE product automaton fed with an arbitrary stream of *)
(* tie decisions t and the information whether the entry is the last one.   *)
(* TLC explores the whole (tiny) state space, which covers every list       *)
(* length and every decision vector.  MC_Ties.tla (WriterBridge,            *)
(* ReaderBridge) checks that each concrete WStep / RStep of MPText.tla is a *)
(* step of this abstraction.                                                *)
(***************************************************************************)
EXTENDS MPText

VARIABLES wIn,     \* writer: inside a parenthesised run
          rIn,     \* reader: inside a parenthesised run
          depth,   \* parenthesis depth of the text so far
          sofar,   \* 0: nothing written, 1: some entry written, 2: the last entry was written
          lastT,   \* decision of the previous entry
          lastInc  \* by how much the reader's rank grew after the previous entry
avars == <<wIn, rIn, depth, sofar, lastT, lastInc>>

AInit == wIn = FALSE /\ rIn = FALSE /\ depth = 0 /\ sofar = 0 /\ lastT = 0 /\ lastInc = 0
AStep(t, last) ==
    /\ sofar < 2
    /\ LET kind == AbsKind(wIn, t, last) IN
       /\ wIn' = AbsWIn(wIn, t, last)
       /\ rIn' = AbsRIn(rIn, kind)
       /\ depth' = depth + (IF kind = "open" THEN 1 ELSE 0) - (IF kind = "close" THEN 1 ELSE 0)
       /\ lastInc' = AbsRInc(rIn, kind)
    /\ lastT' = t
    /\ sofar' = IF last THEN 2 ELSE 1
ANext == \E t \in {0, 1}, last \in BOOLEAN : AStep(t, last)
ASpec == AInit /\ [][ANext]_avars

(* two adjacent entries share a rank exactly when the first was tied to the next *)
SameRankIffTiedA == sofar = 1 => (lastInc = 0 <=> lastT = 1)
(* ranks grow by at most one *)
IncZeroOrOne == lastInc \in {0, 1}
(* parentheses: never nested, balanced at the end; a run that is open after a    *)
(* non-final entry means that entry was tied (runs have at least two entries)    *)
DepthZeroOne == depth \in {0, 1}
BalancedAtEnd == sofar = 2 => depth = 0
OpenMeansTied == sofar = 1 => (depth = 1 <=> lastT = 1)
(* the two automata agree on being inside a run while the list goes on *)
InSync == sofar = 1 => (wIn = rIn /\ (wIn <=> depth = 1))
=============================================================================
