#!/venv/bin/python
"""False-alarm test: run the checks against a behaviour-PRESERVING change.

    tools/benigneval.py <dir with patch.diff [notes.txt]> <id> solver|generator|all [--tier quick]

Applies the patch to a scratch copy of /repo (outside /repo and /verif, removed
at the end), confirms the 35 tests pass, runs the quick tier of every check that
looks at that side of the library with VERIF_REPO pointing at the copy (evidence
redirected to scratch) and writes selftest/benign/<id>/{patch.diff, notes.txt,
result.json}.  Every check is expected to exit 0; a non-zero exit is either a
false alarm of the machinery or a refactoring that is not behaviour-preserving
after all - to be decided by reading the violation.
"""
import argparse
import json
import os
import shutil
import subprocess
import sys
import tempfile
import time

VERIF = os.path.dirname(os.path.dirname(os.path.abspath(__file__)))
SIDES = {'solver': ['C01', 'C02', 'C03', 'C04', 'C05', 'C06', 'C07', 'C09', 'C10', 'C11', 'C13', 'C14', 'C16', 'C18'],
         'generator': ['C08', 'C09', 'C12', 'C13', 'C15', 'C17']}
SIDES['all'] = sorted(set(SIDES['solver']) | set(SIDES['generator']))


def sh(cmd, **kw):
    return subprocess.run(cmd, shell=True, text=True, capture_output=True, **kw)


def main():
    ap = argparse.ArgumentParser()
    ap.add_argument('src')
    ap.add_argument('bid')
    ap.add_argument('side', choices=sorted(SIDES))
    ap.add_argument('--tier', default='quick')
    a = ap.parse_args()
    base = tempfile.mkdtemp(prefix='mpbenign-')
    wt = os.path.join(base, 'repo')
    res = {'id': a.bid, 'side': a.side, 'checks': {}}
    try:
        r = sh('git -C /repo worktree add --detach %s HEAD' % wt)
        if r.returncode:
            print(r.stderr)
            sys.exit(2)
        res['repo_head'] = sh('git -C /repo rev-parse --short HEAD').stdout.strip()
        r = sh('git -C %s apply %s' % (wt, os.path.join(os.path.abspath(a.src), 'patch.diff')))
        res['patch_applies'] = r.returncode == 0
        if r.returncode:
            res['error'] = r.stderr[-400:]
        else:
            t = sh('cd %s && /venv/bin/python -m pytest -q -p no:cacheprovider test 2>&1 | tail -1' % wt)
            res['tests'] = t.stdout.strip()
            res['tests_pass'] = ' passed' in t.stdout and 'failed' not in t.stdout
            for c in SIDES[a.side]:
                t0 = time.time()
                r = sh('cd %s && VERIF_REPO=%s VERIF_EVIDENCE_DIR=%s/ev VERIF_REPLAY_DIR=%s/rp ./check %s --tier %s' % (VERIF, wt, base, base, c, a.tier))
                lines = r.stdout.strip().split('\n')
                res['checks'][c] = {'rc': r.returncode, 'seconds': round(time.time() - t0), 'tail': lines[-1][:300],
                                    'classes': [l.strip()[:300] for l in lines if l.strip().startswith('class ')][:6]}
                print(a.bid, c, 'rc=%d' % r.returncode, flush=True)
        res['alarms'] = sorted(c for c, v in res['checks'].items() if v['rc'] != 0)
    finally:
        sh('git -C /repo worktree remove --force %s' % wt)
        sh('git -C /repo worktree prune')
        shutil.rmtree(base, ignore_errors=True)
    out = os.path.join(VERIF, 'selftest', 'benign', a.bid)
    os.makedirs(out, exist_ok=True)
    for f in ('patch.diff', 'notes.txt'):
        if os.path.exists(os.path.join(a.src, f)):
            shutil.copy(os.path.join(a.src, f), out)
    json.dump(res, open(os.path.join(out, 'result.json'), 'w'), indent=1)
    print(json.dumps({k: res.get(k) for k in ('id', 'patch_applies', 'tests_pass', 'alarms')}))


if __name__ == '__main__':
    main()
