#!/venv/bin/python
"""Regenerates /verif/MANIFEST.json from the table below (single source)."""
import json, os
HERE = os.path.dirname(os.path.dirname(os.path.abspath(__file__)))
ids = [json.loads(l)['id'] for l in open(os.path.join(HERE, 'properties.jsonl'))]

TRUST = ('TLC 1.8 / SANY / CommunityModules; the harness (lexical parsing of result text, exact IP enumerator '
         'cross-checked against CBC); PuLP LpProblem object model; bounds of the families stated in the evidence file')

CHECKS = {
 'C01': dict(cat='model_checking', sec='6 C01',
   text='TLC constructs every instance file and option set of bounded families (MC_Solver.tla), proves on them that the IP model projects exactly onto the valid matchings (all 0/1 points) and that every reported result is valid; every exported behaviour is replayed: the admissible set of the REAL LpProblem is enumerated exactly at each solve and every optimal point the back end may return is forced through the reporting code and compared with the valid matchings of the specification. Exhaustive within the small families, sampled (tlc -simulate) in the wide ones. Code->spec: real-CBC runs on the shipped Evaluations instances and generator-written instances are traces validated by Trace_Pipe.tla.',
   tech='TLC model checking of MC_Solver families + exact enumeration of the real integer program + adversarial stand-in solver replay + trace validation of real-CBC runs (Trace_Pipe.tla)'),
 'C02': dict(cat='model_checking', sec='6 C02',
   text='Same machinery; status Optimal iff the specification admits a matching, emptiness of the real problem at every solve vs the specification, no exception from Solver/solve/getters, for criteria lists of length 0-9 built by TLC with all argument variants; objective-variable bounds and names are also model-checked (ObjBoundsAdmit, NamesUnique).',
   tech='TLC model checking + replay with exact IP enumeration at every solve + trace validation of real-CBC runs (Trace_Pipe.tla)'),
 'C03': dict(cat='model_checking', sec='6 C03',
   text='For each of the nine criteria with every admissible argument variant TLC computes the declarative optimum over all admissible matchings; the optimum of the real problem at every solve, and every returnable final point, must agree.',
   tech='TLC model checking + replay with exact IP enumeration + trace validation of real-CBC runs (Trace_Pipe.tla)'),
 'C04': dict(cat='model_checking', sec='6 C04',
   text='LexOptimal/FrozenHolds model-checked (freeze pipeline = declarative lexicographic optimum); ordered lists of 2-9 criteria with permuted flags and gaps replayed: optimum at every solve and every returnable final point must be the specified lexicographic optimum.',
   tech='TLC model checking + replay with exact IP enumeration + trace validation of real-CBC runs (Trace_Pipe.tla)'),
 'C05': dict(cat='model_checking', sec='6 C05',
   text='IP-level model of the alpha/beta/gamma constraints proved equal to {valid and stable} on all 0/1 points (TLC); admissible set of the real stability IP must EQUAL the stable matchings of the specification on every two-sided family instance (set equality), incl. ties, shared lecturers, zero capacities. A crowd embedding (33 / 40 further students on one lecturer list, their only choice of upper quota 0) gives lecturer lists of 36+ pairs around a TLC-enumerable 3-student core.',
   tech='TLC model checking (StabIP) + exact projection of the real IP compared by set equality + trace validation of real-CBC -stab runs'),
 'C06': dict(cat='model_checking', sec='6 C06',
   text='Checker loop modelled in TLA+ and proved equal to the SPA-STL definition on every upper-quota-respecting assignment (TLC); real Model.check_stability called on every such assignment of every exported instance.',
   tech='TLC model checking (CheckerEqDef) + exhaustive replay of assignments into Model.check_stability'),
 'C07': dict(cat='model_checking', sec='6 C07',
   text='Brute-force fold modelled in product order with its accumulators and proved equal to the declarative optimum of all nine printed statistics (TLC); real -bf runs compared line by line.',
   tech='TLC model checking (BFEqDef) + replay of -bf runs'),
 'C08': dict(cat='model_checking', sec='6 C08',
   text='MPGen.tla: the generator as a state machine; with tiny counts TLC runs it through EVERY random draw and proves GenWellFormed/GenRoundTrip; the real Generator is run on every legal argument vector of the TLC-enumerated families x seeds and each written file is a trace validated by Trace_Gen.tla (specification reader on the bytes, then the guards of the generator actions clause by clause: counts, numbering, list lengths/distinct/in range, Spread of quotas/targets/projects per lecturer, tie probability 0/1 laws, second-side lists iff two-sided, parameter block); "every length can occur" decided statistically on >= 200 lists. The spreading laws (sum, differ by at most one, larger shares first, monotone in the total) are additionally PROVED for unbounded n and totals with TLAPS (spec/unbounded/SpreadProofs.tla, 113 obligations) and create_quotas / create_project_lecturers are compared with Spread / SpreadAssign on every (n, total) of MC_Spread.tla. One generator run in five is judged inside a HISTORY: another accepted run precedes it in the same process and output directory, and its files are compared byte for byte with reference runs in fresh locations; families include 30 rankers on a second-side list and first-side lists of 28-30 entries.',
   tech='TLC model checking of MPGen over all draws + trace validation (Trace_Gen.tla) of real generator output + TLAPS proofs of the spreading laws'),
 'C09': dict(cat='model_checking', sec='6 C09',
   text='GenRoundTrip model-checked; real Generator output (all four types, TLC-enumerated legal vectors, seeds) is fed to the real Solver with the documented flags, real CBC and -bf; every run is a trace validated by Trace_Pipe.tla which re-reads the bytes with the specification, takes the MPSolver actions and judges loading, status, validity, stability, optimum values, statistics and all brute-force lines. Files too large to solve inside TLC (lists of 28-30 entries, 30 rankers) are validated as load-only traces (Construct only; the loaded instance equals what the specification reads from the bytes).',
   tech='trace validation (Trace_Pipe.tla) of real generator->solver runs with real CBC'),
 'C12': dict(cat='model_checking', sec='6 C12',
   text='SecondSideOK model-checked over all draws (MPGen.tla); every generated two-sided file validated by Trace_Gen.tla clause second_side_exactly_rankers (each second-side agent lists exactly the first-side agents ranking it / one of its projects, once).',
   tech='TLC model checking of MPGen + trace validation (Trace_Gen.tla)'),
 'C10': dict(cat='model_checking', sec='6 C10',
   text='TLC renders every family file character by character (three whitespace styles, with/without parameter block, 2/3-agent, lists used/ignored), proves ParseFile(Render(fc)) = Denote(fc), and the loaded Model is compared field by field with the denoted instance. A split id embedding puts student numbers 1 and 257+ (1002+) on the same second-side lists; the comparison of the loaded instance is total (an instance of another shape is a verdict).',
   tech='TLC model checking (ReadRender) + replay of rendered bytes into Solver'),
 'C11': dict(cat='model_checking', sec='6 C11',
   text='With no criterion every valid matching is optimal; the stand-in returns each in turn and every field and listing of the short and long result text is compared with the statistics defined in MPDefs.tla.',
   tech='TLC-computed reports + replay through get_results_short/long for every valid matching'),
 'C13': dict(cat='model_checking', sec='6 C13',
   text='TLA+ writer/reader tie automata model-checked exhaustively (all lists up to length 10/12, all 2^n indicator vectors); every TLC behaviour replayed into create_string_pref, the reader and Solver file loading (2/3-agent, first/second side). Exhaustive for the stated n; plus three-digit entries, sampled decision vectors for lists of 25 and 60 entries, and a finite abstraction of both automata (spec/unbounded/TiesAbs.tla, 6 abstract states, all list lengths) that every concrete step is checked to refine (action properties WriterBridge/ReaderBridge). The decisions are also injected at the RNG boundary and taken through the real create_ties_indicators into the writer, so that whatever container and dtype the generator itself hands over is what is written.',
   tech='TLC exhaustive model checking of MC_Ties.tla + finite abstraction for all lengths + replay of all exported behaviours into the implementation'),
 'C14': dict(cat='fault_enumeration', sec='6 C14',
   text='MC_Faults.tla enumerates, per criteria sequence (1-7 underlying solves incl. per-rank solves), every placement of every back-end failure kind, transient/persistent, all pairs, limit set/unset, duration patterns, and proves the report rule (NoMatchingUnlessAllProven, ShowsFirstBadOrTimeout) on the specification; every plan is replayed into the real code with outcomes injected at COIN_CMD.actualSolve under three leftover-value policies (and once more after a healthy solve on the same object) and a virtual clock in microseconds, over get_results/_short/_long. MC_Runs.tla extends the enumeration to histories of two runs on one object (earlier run healthy / one fault / one slow solve under its own limit, then every single fault in the later run; same invariants on both runs), replayed with the getters judged after each run. Unbounded: TLAPS proves (spec/unbounded/FaultProofs.tla over MPSolverAbs.tla, 32 obligations) that whatever is presented in full was proven optimal for every instance, criteria list and plan; TLC checks that the real actions refine the abstract ones.',
   tech='TLC enumeration of fault plans and two-run histories (MC_Faults.tla, MC_Runs.tla) + fault injection at the pulp boundary with a virtual clock + TLAPS proof of the presentation invariant'),
 'C15': dict(cat='model_checking', sec='6 C15',
   text='The parser mechanism (required/inapplicable tables, defaults, bound checks with explicit "no value") is proved to refine the declarative acceptance rule on every legal vector and every single-fault perturbation (MC_Gen.tla: ParserOK, FamilySound, RejectBeforeWrite, AcceptWritesAll); every vector is replayed into the real Generator in a fresh location: accepted -> all files, rejected -> SystemExit(2) and nothing written.',
   tech='TLC model checking of MC_Gen + replay of every argument vector into Generator'),
 'C17': dict(cat='model_checking', sec='6 C17',
   text='Exact rational model (MC_Skew.tla): positive, sum one, arithmetic progression, last = s x first, single agent -> <<1>> for all n <= 12/24 and s = p/q; create_linear_distribution compared with the exported rationals within 1e-9 and the laws re-checked on the floats; the weights that reach the drawing routine (numpy.random.choice without replacement) in the second of two real generator runs of one process are compared with the rationals too (Draw / UsedAreThisRuns). TLC adds exact arithmetic; numeric tolerance stated. The statement about first draws is decided statistically on real generator output: 6000 lists per shape (complete, one-entry and mixed lengths), sorted first-choice frequencies against the exported weights, tolerance 0.04 (> 6 sigma), fixed seeds.',
   tech='TLC exhaustive evaluation of the rational model + numeric comparison with the implementation'),
 'C18': dict(cat='model_checking', sec='6 C18',
   text='MC_Hist.tla: all call sequences over {solve, 4 getters, a call on another Solver object of the same process} starting with solve; getters read-only (action property), re-solve reproduces status, values and admissible set; every history replayed on one real Solver object with different tie-breaking per solve (stand-in) and real CBC on a sample; byte-for-byte text stability between solves, same status/values across solves, valid matching, get_debug rows consistent.',
   tech='TLC model checking of call histories + replay on one Solver object'),
 'C16': dict(cat='model_checking', sec='6 C16',
   text='Slot placement/compaction modelled and proved to refine the declarative order/refusal rule (MC_Options.tla, positions around 1..9, extras, flag order); every command line replayed into Solver(argv) with a missing file (refusal before reading) and on a real instance (parsed order, reported order); order of solves checked semantically on MC_Solver families with permuted flags and gaps.',
   tech='TLC model checking of MC_Options/MC_Solver + replay into Solver(argv)'),
}
def main():
    checks, na = [], []
    for i in ids:
        c = CHECKS.get(i)
        if not c:
            na.append({'property_id': i, 'reason': 'check not built yet (build round in progress); planned in DESIGN.md section 6'})
            continue
        checks.append({
            'property_id': i,
            'quick_cmd': './check %s --tier quick' % i,
            'thorough_cmd': './check %s --tier thorough' % i,
            'evidence_file': 'evidence/%s.json' % i,
            'replay_cmd_template': './check %s --replay {path}' % i,
            'engine': 'tla-mbt',
            'level_claimed': {'category': c['cat'], 'text': c['text'], 'design_ref': 'DESIGN.md section ' + c['sec']},
            'level_note': c.get('note', TRUST),
            'technique': c['tech'],
        })
    m = {
        'version': 1,
        'setup_cmd': 'true',
        'hooks': {'guard': 'MATCHINGPROBLEMS_VERIF',
                  'enable': 'no source hooks are needed: observation is at the public API, documented Model/Pair attributes and the pulp boundary (COIN_CMD.actualSolve), installed by the harness at run time',
                  'baseline_off_cmd': 'cd /repo && /venv/bin/python -m pytest -ra -q -p no:cacheprovider --timeout=900 --continue-on-collection-errors',
                  'source_commits': [], 'add_only': True},
        'engines': [{'name': 'tla-mbt', 'path': 'spec/ + harness/',
                     'serves_properties': sorted(CHECKS),
                     'kind_free_text': 'explicit TLA+ specification (spec/*.tla) model-checked with TLC; TLC-exported behaviours replayed into the real code (spec->code) and traces recorded from the real code validated by TLC trace specifications (code->spec)'}],
        'checks': checks,
        'notes': 'See DESIGN.md. ./check <id> --tier quick|thorough; exit 0 held, 1 violation, 2 machinery failure.',
        'not_applicable': na,
    }
    json.dump(m, open(os.path.join(HERE, 'MANIFEST.json'), 'w'), indent=1)
    print('MANIFEST: %d checks, %d not_applicable' % (len(checks), len(na)))

if __name__ == '__main__':
    main()
