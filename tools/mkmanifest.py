#!/venv/bin/python
"""Regenerates /verif/MANIFEST.json from the table below (single source)."""
import json, os
HERE = os.path.dirname(os.path.dirname(os.path.abspath(__file__)))
ids = [json.loads(l)['id'] for l in open(os.path.join(HERE, 'properties.jsonl'))]

TRUST = ('TLC 1.8 / SANY / CommunityModules; the harness (lexical parsing of result text, exact IP enumerator '
         'cross-checked against CBC); PuLP LpProblem object model; bounds of the families stated in the evidence file')

CHECKS = {
 'C13': dict(cat='model_checking', sec='6 C13',
   text='TLA+ writer/reader tie automata model-checked exhaustively (all lists up to length 10/12, all 2^n indicator vectors); every TLC behaviour replayed into create_string_pref, the reader and Solver file loading (2/3-agent, first/second side). Exhaustive for the stated n.',
   tech='TLC exhaustive model checking of MC_Ties.tla + replay of all exported behaviours into the implementation'),
}

def main():
    checks, na = [], []
    for i in ids:
        c = CHECKS.get(i)
        if not c:
            na.append({'property_id': i, 'reason': 'check not built yet (build round in progress); planned in DESIGN.md section 6'})
            continue
        checks.append({
            'property_id': i,
            'quick_cmd': './check %s --tier quick' % i,
            'thorough_cmd': './check %s --tier thorough' % i,
            'evidence_file': 'evidence/%s.json' % i,
            'replay_cmd_template': './check %s --replay {path}' % i,
            'engine': 'tla-mbt',
            'level_claimed': {'category': c['cat'], 'text': c['text'], 'design_ref': 'DESIGN.md section ' + c['sec']},
            'level_note': c.get('note', TRUST),
            'technique': c['tech'],
        })
    m = {
        'version': 1,
        'setup_cmd': 'true',
        'hooks': {'guard': 'MATCHINGPROBLEMS_VERIF',
                  'enable': 'no source hooks are needed: observation is at the public API, documented Model/Pair attributes and the pulp boundary (COIN_CMD.actualSolve), installed by the harness at run time',
                  'baseline_off_cmd': 'cd /repo && /venv/bin/python -m pytest -q -p no:cacheprovider test',
                  'source_commits': [], 'add_only': True},
        'engines': [{'name': 'tla-mbt', 'path': 'spec/ + harness/',
                     'serves_properties': sorted(CHECKS),
                     'kind_free_text': 'explicit TLA+ specification (spec/*.tla) model-checked with TLC; TLC-exported behaviours replayed into the real code (spec->code) and traces recorded from the real code validated by TLC trace specifications (code->spec)'}],
        'checks': checks,
        'notes': 'See DESIGN.md. ./check <id> --tier quick|thorough; exit 0 held, 1 violation, 2 machinery failure.',
        'not_applicable': na,
    }
    json.dump(m, open(os.path.join(HERE, 'MANIFEST.json'), 'w'), indent=1)
    print('MANIFEST: %d checks, %d not_applicable' % (len(checks), len(na)))

if __name__ == '__main__':
    main()
