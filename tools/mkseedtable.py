#!/venv/bin/python
"""Rebuilds section 12 of DESIGN.md from selftest/mutants_result.json and seeded/*/meta.json."""
import glob, json, os, re
HERE = os.path.dirname(os.path.dirname(os.path.abspath(__file__)))
out = []
seeds = []
for f in sorted(glob.glob(os.path.join(HERE, 'seeded', '*', 'meta.json'))):
    seeds.append(json.load(open(f)))
out.append('### 12.1 Independent seeded changes (sub-agents that saw only the property text)\n')
out.append('Each change compiles, passes the 35 tests, and its demonstration fails with the change and passes without '
           '(confirmed in a scratch worktree by `tools/seedeval.py`; `seeded/<id>/`).\n')
out.append('| seed | breaks | what it needs to manifest (from the author\'s notes) | confirmed | detected by (quick tier) | first violation class |')
out.append('|---|---|---|---|---|---|')
for m in seeds:
    notes = ''
    np_ = os.path.join(HERE, 'seeded', m['seed'], 'notes.txt')
    need = m.get('needs_to_manifest') or ''
    if not need and os.path.exists(np_):
        txt = open(np_).read()
        mm = re.search(r'(?is)(trigger|needed to manifest|what is needed|needs)[^\n]*\n(.{20,400}?)(\n\n|\Z)', txt)
        need = (mm.group(2) if mm else txt[:300]).replace('\n', ' ').replace('|', '/')
    cls = ''
    for p in m.get('detected_by', []):
        c = m['checks'][p].get('classes') or []
        if c:
            cls = c[0].replace('|', '/')[:140]
            break
    out.append('| %s | %s | %s | %s | %s | %s |' % (m['seed'], m['breaks_property'], need[:260], 'yes' if m.get('confirmed') else 'NO',
                                              ', '.join(m.get('detected_by', [])) or '**missed**', cls))
nd = sum(1 for m in seeds if m.get('detected_by'))
out.append('\n%d of %d confirmed seeded changes are detected by the quick tier of the check of the property they break.\n' % (nd, len(seeds)))
mr = os.path.join(HERE, 'selftest', 'mutants_result.json')
if os.path.exists(mr):
    R = json.load(open(mr))
    out.append('### 12.2 Own catalogue (`selftest/mutants.py`)\n')
    out.append('| id | change | tests pass | expected | detected by |')
    out.append('|---|---|---|---|---|')
    for k in sorted(R):
        r = R[k]
        if 'error' in r:
            out.append('| %s | (pattern not found: %s) | | | |' % (k, r['error']))
            continue
        out.append('| %s | %s | %s | %s | %s |' % (k, r['desc'], 'yes' if r['tests_pass'] else 'NO', ', '.join(r['expected']) or '(none: control)',
                                                ', '.join(r['detected_by']) or ('not reported (as expected)' if not r['expected'] else '**missed**')))
    real = [r for r in R.values() if r.get('expected')]
    nd = sum(1 for r in real if r.get('detected'))
    out.append('\n%d of %d catalogue changes that break a listed property are detected; %d controls (an equivalent mutant, an out-of-scope change) are correctly not reported.\n'
               % (nd, len(real), len(R) - len(real)))
text = '\n'.join(out)
p = os.path.join(HERE, 'DESIGN.md')
s = open(p).read()
if 'SEEDTABLE' in s and '<!-- SEEDTABLE:BEGIN -->' not in s:
    s = s.replace('SEEDTABLE', '<!-- SEEDTABLE:BEGIN -->\n<!-- SEEDTABLE:END -->')
a = s.index('<!-- SEEDTABLE:BEGIN -->') + len('<!-- SEEDTABLE:BEGIN -->')
b = s.index('<!-- SEEDTABLE:END -->')
s = s[:a] + '\n' + text + '\n' + s[b:]
open(p, 'w').write(s)
print('seeds: %d, detected %d' % (len(seeds), sum(1 for m in seeds if m.get('detected_by'))))
