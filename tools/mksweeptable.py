#!/venv/bin/python
"""Regenerates DESIGN.md sections 12.3 (systematic mutation sweep) and 12.4
(behaviour-preserving refactorings) between <!-- SWEEP:BEGIN --> / <!-- SWEEP:END -->
from selftest/mutsweep_result.json, selftest/mutsweep_verdicts.json (hand-written
reading of each survivor) and selftest/benign/*/result.json."""
import glob
import json
import os

VERIF = os.path.dirname(os.path.dirname(os.path.abspath(__file__)))


def esc(s):
    return s.replace('|', '/').replace('\n', ' ')


def main():
    res = json.load(open(os.path.join(VERIF, 'selftest', 'mutsweep_result.json')))
    cand = json.load(open(os.path.join(VERIF, 'selftest', 'mutsweep_candidates.json')))
    vp = os.path.join(VERIF, 'selftest', 'mutsweep_verdicts.json')
    verdicts = json.load(open(vp)) if os.path.exists(vp) else {}
    ncand = len(cand['candidates'])
    ntot = sum(sum(v.values()) for v in cand['stats'].values())
    det = [k for k, v in res.items() if v['detected']]
    sur = [k for k, v in res.items() if not v['detected']]
    out = []
    out.append('### 12.3 Systematic mutation sweep (`selftest/mutsweep.py`)\n')
    out.append('Every single-token mutant of the eleven library modules under a fixed operator set (comparison and arithmetic\n'
               'operators, `and`/`or`, `not` dropped, `True`/`False`, `min`/`max`, MINIMISE/MAXIMISE, `break`/`continue`, integer\n'
               'literals +-1) was generated: %d mutants, of which %d compile and pass the unchanged 35 tests.  Two seeded samples (seeds 1 and 2)\n'
               'stratified by file was run through the quick tier of the checks that look at that file (first detection stops).\n'
               % (ntot, ncand))
    out.append('Sampled %d: **%d detected**, %d not reported.  Every survivor was read by hand:\n' % (len(res), len(det), len(sur)))
    out.append('| mutant (file:line:col:old>new) | change | reading |')
    out.append('|---|---|---|')
    for k in sorted(sur):
        m = res[k]['mutant']
        out.append('| %s | `%s` -> `%s` | %s |' % (esc(k), esc(m['before'][:90]), esc(m['after'][:90]), esc(verdicts.get(k, 'TO BE READ'))))
    out.append('')
    byc = {}
    for k in det:
        for c in res[k]['detected_by']:
            byc[c] = byc.get(c, 0) + 1
    out.append('Detections by check: ' + ', '.join('%s %d' % (c, n) for c, n in sorted(byc.items())) + '.\n')
    unexplained = [k for k in sur if not verdicts.get(k, '').lower().startswith(('equivalent', 'outside', 'detected'))]
    out.append('Survivors that are neither equivalent nor outside every statement: %d.\n' % len(unexplained))
    out.append('### 12.4 Behaviour-preserving refactorings (`tools/benigneval.py`, false-alarm test)\n')
    out.append('Two sub-agents (solver side, generator side; given the 18 statements and the README, nothing from /verif) each wrote six\n'
               'substantial refactorings meant to PRESERVE every property.  Each was applied to a scratch tree, the 35 tests were run and\n'
               'then the quick tier of every check of that side; a non-zero exit would be a false alarm (or a refactoring that is not\n'
               'behaviour-preserving after all).\n')
    out.append('| id | refactoring | tests | checks run | alarms |')
    out.append('|---|---|---|---|---|')
    for d in sorted(glob.glob(os.path.join(VERIF, 'selftest', 'benign', '*'))):
        r = json.load(open(os.path.join(d, 'result.json')))
        note = ''
        np_ = os.path.join(d, 'notes.txt')
        if os.path.exists(np_):
            note = ' '.join(open(np_).read().split('\n')[:3]).strip()[:170]
        out.append('| %s | %s | %s | %s | %s |' % (r['id'], esc(note), 'pass' if r.get('tests_pass') else 'FAIL',
                                              ' '.join(sorted(r['checks'])), ', '.join(r.get('alarms', [])) or 'none'))
    out.append('')
    text = '\n'.join(out)
    p = os.path.join(VERIF, 'DESIGN.md')
    s = open(p).read()
    b, e = '<!-- SWEEP:BEGIN -->', '<!-- SWEEP:END -->'
    if b not in s:
        s = s.replace('<!-- SEEDTABLE:END -->', '<!-- SEEDTABLE:END -->\n\n%s\n%s\n' % (b, e))
    s = s[:s.index(b) + len(b)] + '\n' + text + '\n' + s[s.index(e):]
    open(p, 'w').write(s)
    print('sweep: %d sampled, %d detected, %d survivors (%d unexplained)' % (len(res), len(det), len(sur), len(unexplained)))


if __name__ == '__main__':
    main()
