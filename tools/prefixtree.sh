#!/bin/sh
# Runs every quick check against the ORIGINAL pinned tree (before the fix: commits)
# in a scratch worktree; writes selftest/prefix_tree_result.txt.  Self-test only.
cd "$(dirname "$0")/.." || exit 2
WT=$(mktemp -d /tmp/mpprefix-XXXXXX); rmdir $WT
SCR=$(mktemp -d /tmp/mpprefix-ev-XXXXXX)
git -C /repo worktree add --detach $WT f01f6d2 -q || exit 2
OUT=selftest/prefix_tree_result.txt
echo "quick checks against the pinned tree f01f6d2 (before any fix: commit)" > $OUT
for i in 01 02 03 04 05 06 07 08 09 10 11 12 13 14 15 16 17 18; do
  VERIF_REPO=$WT VERIF_EVIDENCE_DIR=$SCR/ev VERIF_REPLAY_DIR=$SCR/rp ./check C$i --tier quick > $SCR/C$i.log 2>&1
  rc=$?
  echo "C$i rc=$rc" >> $OUT
  grep "class x" $SCR/C$i.log | head -8 | cut -c1-230 >> $OUT
done
git -C /repo worktree remove --force $WT; rm -rf $WT $SCR
cat $OUT
