#!/bin/sh
# runs every check (default tier quick) and prints one line per property
cd "$(dirname "$0")/.." || exit 2
TIER=${1:-quick}
for i in 01 02 03 04 05 06 07 08 09 10 11 12 13 14 15 16 17 18; do
  s=$(date +%s)
  ./check C$i --tier $TIER > /tmp/runall_C$i.log 2>&1
  rc=$?
  e=$(date +%s)
  echo "C$i rc=$rc $((e-s))s $(tail -1 /tmp/runall_C$i.log | cut -c1-160)"
done
