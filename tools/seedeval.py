#!/venv/bin/python
"""Confirm a seeded change and run the checks against it.

    tools/seedeval.py <seed dir with patch.diff, demo.py> <seed id> <property> [--checks C01,C05 | --all] [--tier quick]

Works in a scratch worktree of /repo (outside /repo and /verif, removed at the
end).  Confirms: demo exits 0 on the unchanged tree, the patch applies, the 35
tests pass with it, the demo exits 1 with it; then runs the chosen checks with
VERIF_REPO pointing at the changed tree (evidence redirected to scratch) and
writes /verif/seeded/<seed id>/{patch.diff, demo.py, notes.txt, meta.json}.
"""
import argparse
import json
import os
import shutil
import subprocess
import sys
import tempfile
import time

VERIF = os.path.dirname(os.path.dirname(os.path.abspath(__file__)))


def sh(cmd, timeout=3600, **kw):
    try:
        return subprocess.run(cmd, shell=True, text=True, capture_output=True, timeout=timeout, **kw)
    except subprocess.TimeoutExpired:
        class R:
            returncode, stdout, stderr = 124, '', 'timeout'
        return R()


def main():
    ap = argparse.ArgumentParser()
    ap.add_argument('src')
    ap.add_argument('sid')
    ap.add_argument('prop')
    ap.add_argument('--checks', default='')
    ap.add_argument('--all', action='store_true')
    ap.add_argument('--tier', default='quick')
    ap.add_argument('--needs', default='')
    a = ap.parse_args()
    checks = ['C%02d' % i for i in range(1, 19)] if a.all else ([c for c in a.checks.split(',') if c] or [a.prop])
    wt = tempfile.mkdtemp(prefix='mpseed-')
    os.rmdir(wt)
    scr = tempfile.mkdtemp(prefix='mpseed-ev-')
    meta = {'seed': a.sid, 'breaks_property': a.prop, 'source': 'independent sub-agent given only the property text',
            'needs_to_manifest': a.needs, 'ran': [], 'repo_head': sh('git -C /repo rev-parse --short HEAD').stdout.strip()}
    r = sh('git -C /repo worktree add --detach %s HEAD' % wt)
    if r.returncode:
        print(r.stderr)
        sys.exit(2)
    env = 'TMPDIR=%s' % scr
    try:
        demo = os.path.join(a.src, 'demo.py')
        patch = os.path.join(a.src, 'patch.diff')
        c0 = sh('%s /venv/bin/python %s %s' % (env, demo, wt), timeout=600)
        meta['demo_unchanged_exit'] = c0.returncode
        ap_ = sh('git -C %s apply %s' % (wt, patch))
        meta['patch_applies'] = ap_.returncode == 0
        if ap_.returncode:
            meta['patch_error'] = ap_.stderr[-500:]
        t = sh('cd %s && /venv/bin/python -m pytest -q -p no:cacheprovider test 2>&1 | tail -1' % wt)
        meta['tests_with_change'] = t.stdout.strip()
        meta['tests_pass'] = ' passed' in t.stdout and 'failed' not in t.stdout and 'error' not in t.stdout
        sh('find %s -name __pycache__ -type d -exec rm -rf {} +' % wt)
        c1 = sh('%s /venv/bin/python %s %s' % (env, demo, wt), timeout=600)
        meta['demo_changed_exit'] = c1.returncode
        meta['demo_changed_output'] = (c1.stdout + c1.stderr)[-600:]
        meta['confirmed'] = bool(meta['patch_applies'] and meta['tests_pass'] and c0.returncode == 0 and c1.returncode == 1)
        meta['ran'] += ['demo.py on unchanged worktree -> exit %s' % c0.returncode, 'git apply patch.diff',
                        'pytest test -> %s' % meta['tests_with_change'], 'demo.py on changed worktree -> exit %s' % c1.returncode]
        meta['checks'] = {}
        for p in checks:
            t0 = time.time()
            c = sh('cd %s && VERIF_REPO=%s VERIF_EVIDENCE_DIR=%s/ev VERIF_REPLAY_DIR=%s/rp ./check %s --tier %s' % (VERIF, wt, scr, scr, p, a.tier))
            viol = [l for l in c.stdout.split('\n') if l.startswith('VIOLATION property=%s' % p)]
            classes = [l.strip() for l in c.stdout.split('\n') if l.strip().startswith('class x')][:6]
            meta['checks'][p] = {'rc': c.returncode, 'violation_lines': len(viol), 'seconds': round(time.time() - t0),
                                 'classes': classes, 'tail': c.stdout.strip().split('\n')[-1][:300]}
            meta['ran'].append('VERIF_REPO=<changed worktree> ./check %s --tier %s -> rc %s' % (p, a.tier, c.returncode))
            print(p, 'rc=%s' % c.returncode, classes[:2], flush=True)
        meta['detected_by'] = [p for p, v in meta['checks'].items() if v['rc'] == 1 and v['violation_lines']]
        meta['machinery_failures'] = [p for p, v in meta['checks'].items() if v['rc'] not in (0, 1)]
    finally:
        sh('git -C /repo worktree remove --force %s' % wt)
        shutil.rmtree(wt, ignore_errors=True)
        shutil.rmtree(scr, ignore_errors=True)
    dst = os.path.join(VERIF, 'seeded', a.sid)
    if os.path.isdir(dst):
        old = os.path.join(dst, 'meta.json')
        if os.path.exists(old):
            om = json.load(open(old))
            merged = om.get('checks', {})
            merged.update(meta['checks'])
            meta['checks'] = merged
            meta['detected_by'] = sorted(p for p, v in merged.items() if v['rc'] == 1 and v['violation_lines'])
    os.makedirs(dst, exist_ok=True)
    for f in ('patch.diff', 'demo.py', 'notes.txt'):
        if os.path.exists(os.path.join(a.src, f)):
            shutil.copy(os.path.join(a.src, f), dst)
    json.dump(meta, open(os.path.join(dst, 'meta.json'), 'w'), indent=1)
    print(json.dumps({k: meta[k] for k in ('seed', 'confirmed', 'tests_pass', 'demo_unchanged_exit', 'demo_changed_exit', 'detected_by', 'machinery_failures')}))


if __name__ == '__main__':
    main()
